#![no_main]
// libFuzzer target: bytes -> the harness's choice-sequence decoder -> the property's oracle.
// The property is selected with ACPIV_FUZZ_PROP (see harness/src/fuzzapi.rs).
use libfuzzer_sys::fuzz_target;

fuzz_target!(|data: &[u8]| {
    acpiv::fuzzapi::fuzz_one("fz_sdt", data);
});
