#!/bin/bash
# Offline build of the verification harness (MANIFEST.setup_cmd). Idempotent.
set -e
cd "$(dirname "$0")"
export CARGO_NET_OFFLINE=true
mkdir -p evidence work replays/found
(cd harness && cargo build --profile rel --offline 2>&1 | tail -3)
(cd harness && cargo build --profile chk --offline 2>&1 | tail -3)
echo "setup ok"
