pub mod aml;
pub mod engine;
pub mod props;
pub mod tables;
pub mod fuzzapi;
