pub fn hello() {}
