//! Entry points shared by the libFuzzer targets (Engine C) and by the main
//! binary when it re-runs a fuzzer artifact: bytes -> the same decoder -> the
//! same oracle. The semantic oracle is inside the target.

use crate::engine::*;
use crate::props;
use crate::tables::gen::gen_program;
use crate::tables::types::*;
use std::sync::OnceLock;

fn known() -> &'static KnownFindings {
    static K: OnceLock<KnownFindings> = OnceLock::new();
    K.get_or_init(|| {
        let root = std::env::var("ACPIV_ROOT").unwrap_or_else(|_| "/verif".into());
        KnownFindings::load(std::path::Path::new(&root))
    })
}

pub const TARGETS: [&str; 4] = ["fz_tables", "fz_aml", "fz_sdt", "fz_checksum"];

/// which properties a target can serve
pub fn target_for(prop: &str) -> Option<&'static str> {
    Some(match prop {
        "C01" | "C02" | "C03" | "C04" | "C05" | "C14" => "fz_tables",
        "C06" | "C10" | "C15" => "fz_aml",
        "C13" => "fz_sdt",
        "C17" => "fz_checksum",
        _ => return None,
    })
}

/// Run the oracle(s) of `prop` on the case decoded from `data`.
/// Returns the violations that are not open known findings, with the decoded case as JSON.
pub fn run(prop: &str, data: &[u8]) -> (Vec<Violation>, serde_json::Value) {
    let mut s = Choices::new(data);
    let (vs, case): (Vec<Violation>, serde_json::Value) = match prop {
        "C01" | "C02" | "C03" | "C04" | "C05" => {
            let kinds: &[Kind] = match prop {
                "C01" => props::common::CHECKSUMMED,
                "C03" => props::c03::KINDS,
                "C05" => props::c05::KINDS,
                _ => &ALL_KINDS,
            };
            let p = gen_program(&mut s, kinds);
            let vs = match prop {
                "C01" => props::c01::oracle(&p),
                "C02" => props::c02::oracle(&p),
                "C03" => props::c03::oracle(&p),
                "C04" => props::c04::oracle(&p),
                _ => props::c05::oracle(&p),
            };
            (vs, serde_json::to_value(&p).unwrap())
        }
        "C14" => {
            let c = props::c14::decode(&mut s);
            (props::c14::oracle(&c), serde_json::to_value(&c).unwrap())
        }
        "C06" => {
            let t = props::c06::decode(&mut s);
            (props::c06::oracle(&t), serde_json::to_value(&t).unwrap())
        }
        "C10" => {
            let t = props::c10::decode(&mut s);
            (props::c10::oracle(&t), serde_json::to_value(&t).unwrap())
        }
        "C15" => {
            let t = props::c15::decode(&mut s);
            (props::c15::oracle(&t), serde_json::to_value(&t).unwrap())
        }
        "C13" => {
            let p = crate::tables::gen::gen_program_of(&mut s, Kind::Sdt);
            (props::c13::oracle(&p), serde_json::to_value(&p).unwrap())
        }
        "C17" => {
            let c = props::c17::decode(&mut s);
            (props::c17::oracle(&c), serde_json::to_value(&c).unwrap())
        }
        _ => (vec![], serde_json::Value::Null),
    };
    let k = known();
    (vs.into_iter().filter(|v| k.matches(v).is_none()).collect(), case)
}

/// libFuzzer entry: panics (so that libFuzzer saves the input) on a violation
pub fn fuzz_one(target: &str, data: &[u8]) {
    static PROP: OnceLock<String> = OnceLock::new();
    static HOOK: OnceLock<()> = OnceLock::new();
    HOOK.get_or_init(|| {
        // the crate's own refusals are caught by the drivers; keep the log quiet
        let default = std::panic::take_hook();
        std::panic::set_hook(Box::new(move |info| {
            let msg = info.to_string();
            if msg.contains("ACPIV-VIOLATION") {
                default(info);
            }
        }));
    });
    let prop = PROP.get_or_init(|| {
        std::env::var("ACPIV_FUZZ_PROP").unwrap_or_else(|_| {
            match target {
                "fz_tables" => "C04",
                "fz_aml" => "C06",
                "fz_sdt" => "C13",
                _ => "C17",
            }
            .to_string()
        })
    });
    let (vs, _) = run(prop, data);
    if let Some(v) = vs.first() {
        if !v.is_harness_error() {
            panic!("ACPIV-VIOLATION {} {}", v.sig(), v.info);
        }
    }
}

/// Engine C driver (thorough tiers): builds the libFuzzer target with cargo-fuzz, runs
/// fixed-work campaigns in parallel worker processes (distinct seeds, seed corpus +
/// fresh scratch corpus), and re-runs every artifact through the plain oracle. Only a
/// reproducing artifact becomes a violation; timeouts/OOM/non-reproducing artifacts are
/// infrastructure errors (exit 2), a failed build is recorded as a note.
pub fn campaign(ctx: &Ctx, runs_total: u64) {
    use std::process::Command;
    let Some(target) = target_for(&ctx.prop) else { return };
    if std::env::var("ACPIV_NO_FUZZ").is_ok() {
        ctx.note("Engine C (libFuzzer) skipped: ACPIV_NO_FUZZ set".into());
        return;
    }
    let root = ctx.root.clone();
    let work = root.join("work").join("fuzz").join(format!("{}-{}", target, ctx.prop));
    let _ = std::fs::remove_dir_all(&work);
    let _ = std::fs::create_dir_all(work.join("artifacts"));
    let build = Command::new("cargo")
        .args(["+nightly", "fuzz", "build", "--fuzz-dir"])
        .arg(root.join("fuzz"))
        .arg(target)
        .current_dir(root.join("harness"))
        .env("RUSTFLAGS", "--cfg rust_vmm_acpi_tables_verif")
        .env("CARGO_NET_OFFLINE", "true")
        .output();
    let ok = matches!(&build, Ok(o) if o.status.success());
    if !ok {
        let msg = match build {
            Ok(o) => trunc(String::from_utf8_lossy(&o.stderr).to_string(), 400),
            Err(e) => e.to_string(),
        };
        ctx.note(format!("Engine C (libFuzzer) did not run: cargo fuzz build failed: {}", msg));
        return;
    }
    // locate the binary
    let mut bin = None;
    for base in [root.join("target"), root.join("fuzz").join("target")] {
        let p = base.join("x86_64-unknown-linux-gnu").join("release").join(target);
        if p.exists() {
            bin = Some(p);
            break;
        }
    }
    let Some(bin) = bin else {
        ctx.note("Engine C: built fuzz target not found".into());
        return;
    };
    let workers = threads().min(8) as u64;
    let per = (runs_total / workers).max(1);
    let mut children = Vec::new();
    for w in 0..workers {
        let corpus = work.join(format!("corpus-{}", w));
        let _ = std::fs::create_dir_all(&corpus);
        let child = Command::new(&bin)
            .arg(&corpus)
            .arg(root.join("corpus").join(target))
            .arg(format!("-runs={}", per))
            .arg(format!("-seed={}", (mix(ctx.seed, target, w) % 0xffff_fffe) + 1))
            // fixed work (-runs) with a wall-clock safety cap; reaching the cap only shortens the
            // campaign (the evidence reports the executions actually done), it is never a verdict
            .args(["-max_len=1200", "-len_control=0", "-timeout=120", "-rss_limit_mb=6000", "-print_final_stats=1", "-max_total_time=300"])
            .arg(format!("-artifact_prefix={}/", work.join("artifacts").display()))
            .env("ACPIV_FUZZ_PROP", &ctx.prop)
            .env("ACPIV_ROOT", &root)
            .stdout(std::process::Stdio::null())
            .stderr(std::process::Stdio::piped())
            .spawn();
        if let Ok(c) = child {
            children.push(c);
        }
    }
    let mut execs = 0u64;
    let mut cov = 0u64;
    for c in children {
        if let Ok(o) = c.wait_with_output() {
            let err = String::from_utf8_lossy(&o.stderr);
            for l in err.lines() {
                if let Some(x) = l.strip_prefix("stat::number_of_executed_units:") {
                    execs += x.trim().parse::<u64>().unwrap_or(0);
                }
                if let Some(i) = l.find(" cov: ") {
                    if let Some(n) = l[i + 6..].split_whitespace().next().and_then(|x| x.parse::<u64>().ok()) {
                        cov = cov.max(n);
                    }
                }
            }
        }
    }
    ctx.add_engine(&format!("libfuzzer:{}:execs", target), execs);
    ctx.add_engine(&format!("libfuzzer:{}:coverage-edges", target), cov);
    ctx.add_evals(execs);
    // artifacts
    if let Ok(rd) = std::fs::read_dir(work.join("artifacts")) {
        for e in rd.flatten() {
            let name = e.file_name().to_string_lossy().to_string();
            let bytes = std::fs::read(e.path()).unwrap_or_default();
            if name.starts_with("slow-unit-") {
                // informational: libFuzzer reports units slower than 10 s (ASan + long histories)
                ctx.add_engine(&format!("libfuzzer:{}:slow-units", target), 1);
                continue;
            }
            if name.starts_with("timeout-") || name.starts_with("oom-") {
                // a unit that is slow or large under ASan: inconclusive for Engine C only (the
                // deciding engines are A and B); recorded, never a verdict
                ctx.add_engine(&format!("libfuzzer:{}:{}-units", target, name.split('-').next().unwrap_or("")), 1);
                ctx.note(format!("libFuzzer reported a {} unit under ASan (inconclusive, not a verdict)", name.split('-').next().unwrap_or("")));
                continue;
            }
            let (vs, case) = run(&ctx.prop, &bytes);
            if vs.is_empty() {
                ctx.add_engine(&format!("libfuzzer:{}:non-reproducing-artifacts", target), 1);
                ctx.note(format!("libFuzzer artifact {} does not reproduce through the plain oracle (inconclusive, not a verdict)", name));
            } else {
                let hex: String = bytes.iter().map(|b| format!("{:02x}", b)).collect();
                ctx.report(&format!("fuzz:{}", target), serde_json::json!({"bytes": hex, "case": case}), vs);
            }
        }
    }
    let _ = std::fs::remove_dir_all(&work);
}
