fn main() { acpiv::hello(); }
