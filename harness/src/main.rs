use acpiv::engine::*;
use std::path::PathBuf;

fn root() -> PathBuf {
    std::env::var("ACPIV_ROOT").map(PathBuf::from).unwrap_or_else(|_| {
        let p = PathBuf::from(env!("CARGO_MANIFEST_DIR"));
        p.parent().unwrap().to_path_buf()
    })
}

fn seed() -> u64 {
    std::env::var("VERIF_SEED").ok().and_then(|s| s.trim().parse::<u64>().ok()).unwrap_or(20261002)
}

fn replay_file(path: &str, quiet: bool) -> (String, Vec<Violation>) {
    let txt = std::fs::read_to_string(path).unwrap_or_else(|e| {
        eprintln!("cannot read {}: {}", path, e);
        std::process::exit(2)
    });
    let v: serde_json::Value = serde_json::from_str(&txt).expect("replay file must be JSON");
    let prop = v["property"].as_str().unwrap_or("").to_string();
    let check = v["check"].as_str().unwrap_or("").to_string();
    if !quiet {
        println!("replaying {} check={} (build profile {})", prop, check, build_profile());
    }
    if check == "escaped-panic" {
        // no stored input: the panic escaped from a directed part of the check, which every run repeats
        println!("(escaped-panic record: re-run `./check {} quick` to reproduce)", prop);
        return (prop, vec![]);
    }
    match acpiv::props::replay(&prop, &check, &v["replay"]) {
        Some(vs) => (prop, vs),
        None => {
            eprintln!("no replay handler for {} {}", prop, check);
            std::process::exit(2)
        }
    }
}

fn main() {
    let args: Vec<String> = std::env::args().collect();
    if args.len() >= 3 && args[1] == "replay" {
        let (prop, vs) = replay_file(&args[2], false);
        let vs: Vec<_> = vs.into_iter().filter(|v| !v.is_harness_error()).collect();
        for v in &vs {
            println!("VIOLATION property={} replay={}", prop, args[2]);
            println!("  {} | {} | {} | {}", v.subject, v.kind, v.detail, v.info);
        }
        if vs.is_empty() {
            println!("replay: no violation");
        }
        std::process::exit(if vs.is_empty() { 0 } else { 1 });
    }
    if args.len() >= 4 && args[1] == "check" {
        let tier = if args[3] == "thorough" { Tier::Thorough } else { Tier::Quick };
        let ctx = Ctx::new(&args[2], tier, seed(), root());
        silence_panics();
        // regression tier: committed reproducers of this property are replayed first
        let dir = ctx.root.join("replays").join(&args[2]);
        if let Ok(rd) = std::fs::read_dir(&dir) {
            let mut files: Vec<_> = rd.flatten().map(|e| e.path()).filter(|p| p.extension().map_or(false, |x| x == "json")).collect();
            files.sort();
            for f in files {
                let (_, vs) = replay_file(f.to_str().unwrap(), true);
                ctx.add_evals(1);
                ctx.add_engine("replayed-regressions", 1);
                let mut unknown = Vec::new();
                for v in vs {
                    unknown.push(v);
                }
                if !unknown.is_empty() {
                    // report with the committed file as the replay path
                    let txt = std::fs::read_to_string(&f).unwrap();
                    let doc: serde_json::Value = serde_json::from_str(&txt).unwrap();
                    ctx.report(doc["check"].as_str().unwrap_or("regression"), doc["replay"].clone(), unknown);
                }
            }
        }
        // Everything the checks hand to the crate outside a refusal-catching driver is valid input.
        // A panic that escapes from there and was raised inside the crate's own source is therefore a
        // refusal of valid input (in this build profile); one raised anywhere else is a harness error.
        match std::panic::catch_unwind(std::panic::AssertUnwindSafe(|| acpiv::props::run(&ctx))) {
            Ok(true) => {}
            Ok(false) => {
                eprintln!("unknown property {}", args[2]);
                std::process::exit(2);
            }
            Err(_) => {
                let (loc, msg) = LAST_PANIC.lock().ok().and_then(|g| g.clone()).unwrap_or_default();
                let file = loc.rsplit_once(':').map(|x| x.0.to_string()).unwrap_or(loc.clone());
                let profile = if overflow_checks_on() { "overflow-checks-on" } else { "overflow-checks-off" };
                // harness files are relative paths (workspace root package); dependencies live in the
                // cargo registry, std under /rustc: any other absolute path is the crate under test
                let in_crate = file.starts_with('/') && !file.contains("/.cargo/") && !file.contains("/rustc/") && !file.contains("/rustlib/");
                let v = if in_crate {
                    Violation::new(&args[2], "crate", "refused-valid", format!("panic in {} build:{}: {}", file.rsplit_once("/src/").map(|x| format!("src/{}", x.1)).unwrap_or(file.clone()), profile, trunc(msg, 80)), format!("escaped from a directed (unguarded) part of the check at {}", loc))
                } else {
                    Violation::new(&args[2], "harness", "harness-panic", format!("escaped panic at {}", loc), trunc(msg, 200))
                };
                ctx.report("escaped-panic", serde_json::json!({"case": "escaped-panic"}), vec![v]);
            }
        }
        if std::env::var("ACPIV_CHILD").is_ok() {
            println!("CHILD-SUMMARY {}", ctx.child_summary());
        }
        std::process::exit(ctx.finish());
    }
    eprintln!("usage: acpiv check <Cxx> <quick|thorough> | acpiv replay <file>");
    std::process::exit(2);
}
