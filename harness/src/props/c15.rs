//! C15 — alternative construction paths for the same object emit identical bytes.

use super::c06::boundary_sizes;
use crate::aml::build::emit;
use crate::aml::term::*;
use crate::engine::*;
use crate::props::c09::{gen_path, PathCase};
use rayon::prelude::*;
use serde::{Deserialize, Serialize};
use serde_json::json;
use std::panic::{catch_unwind, AssertUnwindSafe};

#[derive(Clone, Debug, Hash, Serialize, Deserialize)]
pub enum Case {
    /// Scope::new vs Scope::raw over the same children
    Scope(PathCase, Vec<Term>),
    /// Package::new vs PackageBuilder over the same elements
    Package(Vec<Term>),
    /// &'static str vs String
    Str(String),
    /// usize vs u64
    Int(u64),
}

fn size_class(n: usize) -> &'static str {
    match n {
        0..=58 => "body<59",
        59..=66 => "body~63",
        67..=4085 => "body<4086",
        4086..=4100 => "body~4095",
        4101..=1_000_000 => "body<2^20",
        _ => "body~2^20",
    }
}

pub fn oracle(c: &Case) -> Vec<Violation> {
    let (a, b, subject) = match c {
        Case::Scope(p, ch) => (Term::Scope(p.clone(), ch.clone()), Term::ScopeRaw(p.clone(), ch.clone()), "Scope::new vs Scope::raw"),
        Case::Package(e) => (Term::Package(e.clone()), Term::PackageB(e.clone()), "Package vs PackageBuilder"),
        Case::Str(s) => (Term::Str(s.clone()), Term::StaticStr(s.clone()), "String vs &'static str"),
        Case::Int(v) => (Term::U64(*v), Term::Usize(*v), "u64 vs usize"),
    };
    let ea = catch_unwind(AssertUnwindSafe(|| emit(&a)));
    let eb = catch_unwind(AssertUnwindSafe(|| emit(&b)));
    match (ea, eb) {
        (Ok(x), Ok(y)) => {
            if x == y {
                vec![]
            } else {
                let off = x.iter().zip(y.iter()).position(|(p, q)| p != q).unwrap_or(x.len().min(y.len()));
                vec![Violation::new(
                    "C15",
                    subject,
                    "path-diff",
                    format!("{} first-difference:{}", size_class(x.len().max(y.len())), if off < 6 { "header".to_string() } else { "body".to_string() }),
                    format!("len_a={} len_b={} offset={} a={:02x?} b={:02x?}", x.len(), y.len(), off, &x[..x.len().min(12)], &y[..y.len().min(12)]),
                )]
            }
        }
        (Err(_), Err(_)) => vec![],
        (ra, _) => vec![Violation::new("C15", subject, "path-diff", "one path refuses".into(), format!("first path refused: {}", ra.is_err()))],
    }
}

pub fn decode(s: &mut Choices) -> Case {
    match s.below(8) {
        0 | 1 | 2 => {
            let mut p = gen_path(s);
            p.segs.truncate(6);
            let n = s.below(5);
            let mut g = Gen { s, budget: 40 };
            let ch = (0..n).map(|_| g.stmt(2)).collect();
            Case::Scope(p, ch)
        }
        3 | 4 | 5 => {
            let n = match s.below(6) {
                0 => 0,
                1 => 250 + s.below(6),
                _ => s.below(12),
            };
            let mut g = Gen { s, budget: 300 };
            Case::Package((0..n).map(|_| if n > 20 { g.int() } else { g.data(1) }).collect())
        }
        6 => {
            let n = s.below(80);
            // any Rust string: the two impls must agree on it, valid AML text or not
            let odd = ['\0', '\n', '\t', ' ', '\u{7f}', '\u{e9}', '\u{130}', '\u{1f600}', '"', '\\'];
            let mut t: String = (0..n).map(|_| if s.below(12) == 0 { odd[s.below(odd.len() as u32) as usize] } else { (0x20 + s.below(0x5f) as u8) as char }).collect();
            match s.below(8) {
                0 => t.push('\0'),
                1 => t.insert(0, '\0'),
                2 => t.push(' '),
                _ => {}
            }
            Case::Str(t)
        }
        _ => Case::Int(s.u64()),
    }
}

fn nontrivial(c: &Case) -> bool {
    match c {
        Case::Scope(_, ch) | Case::Package(ch) => {
            if ch.len() >= 2 {
                return true;
            }
            let n = emit(&Term::Package(ch.clone())).len();
            [63usize, 4095, 1 << 20].iter().any(|b| n.abs_diff(*b) <= 6)
        }
        _ => false,
    }
}

pub fn run(ctx: &Ctx) {
    ctx.set_rule("differential: Scope::raw(path, serialised children) vs Scope::new(path, children); PackageBuilder filled element by element vs Package::new; String vs &'static str; usize vs u64 -- byte-for-byte equality (neither side is trusted; C06/C07 judge absolute correctness). Exhaustive: every body size 0..4200 and 2^20 +- 16 for both pairs, all path shapes with 1..255 segments; generated: child/element lists from the C06 generator, 0..255 elements. Non-trivial = >= 2 children/elements or a body within +-6 of a PkgLength boundary; distinct by hash. Strings are arbitrary Rust strings (NUL, control and non-ASCII characters included): the owned and the borrowed impl must agree on all of them. Builders are re-used after a refused element.");
    let mut cases: Vec<Case> = Vec::new();
    let p = PathCase { rooted: true, segs: vec!["_SB_".into(), "PCI0".into()] };
    let sizes: Vec<u32> = (0..=4200).collect();
    let _ = boundary_sizes(false);
    for n in &sizes {
        cases.push(Case::Scope(p.clone(), vec![Term::Filler(*n)]));
        cases.push(Case::Package(vec![Term::Filler(*n)]));
    }
    for n in (1 << 20) - 16..(1 << 20) + 16 {
        cases.push(Case::Scope(p.clone(), vec![Term::Filler(n)]));
        if n % 4 == 0 || !ctx.quick() {
            cases.push(Case::Package(vec![Term::Filler(n)]));
        }
    }
    for segs in 1..=255usize {
        let pc = PathCase { rooted: segs % 2 == 0, segs: (0..segs).map(|i| format!("S{:03}", i)).collect() };
        cases.push(Case::Scope(pc, vec![Term::U8(7)]));
    }
    for n in 0..=255usize {
        cases.push(Case::Package((0..n).map(|i| Term::U8(i as u8)).collect()));
    }
    for v in super::c08::special_values() {
        cases.push(Case::Int(v));
    }
    for t in ["", "\0", "a\0", "\0a", "a\0b", "a\0\0", " a ", "a ", "\n", "\u{e9}", "abc\u{130}", "\u{7f}", "ABCD", "A long string with spaces, punctuation; and \"quotes\"."] {
        cases.push(Case::Str(t.to_string()));
    }
    let n = cases.len() as u64;
    let res: Vec<(usize, Vec<Violation>)> = cases.par_iter().enumerate().map(|(i, c)| (i, guarded("C15", &oracle, c))).filter(|(_, v)| !v.is_empty()).collect();
    ctx.add_evals(n);
    ctx.add_engine("enumeration:c15", n);
    ctx.add_subdomain("Scope::raw vs Scope::new and PackageBuilder vs Package for every body size 0..4200 and 2^20 +- 16; all 255 path lengths; 0..255 elements; integer boundaries", n, true);
    ctx.add_nontrivial(cases.par_iter().filter(|c| nontrivial(c)).map(fingerprint).collect::<Vec<_>>());
    let mut seen = std::collections::HashSet::new();
    for (i, vs) in res {
        for x in vs {
            if seen.insert(x.sig()) {
                ctx.report("c15.case", json!({"case": serde_json::to_value(&cases[i]).unwrap()}), vec![x]);
            }
        }
    }
    ctx.add_sample(json!({"Scope": ["\\_SB_.PCI0", [{"Filler": 4085}]]}));
    run_pt(
        ctx,
        Pt {
            name: "c15.case",
            cases: ctx.scale(150_000, 800_000),
            max_len: 900,
            decode: &decode,
            oracle: &oracle,
            nontrivial: &nontrivial,
            classify: &|c: &Case, l: &mut Vec<String>| {
                l.push(
                    match c {
                        Case::Scope(..) => "scope",
                        Case::Package(..) => "package",
                        Case::Str(..) => "string",
                        Case::Int(..) => "integer",
                    }
                    .into(),
                )
            },
            to_json: &|c: &Case| serde_json::to_value(c).unwrap(),
        },
    );
}

pub fn replay(case: &serde_json::Value) -> Vec<Violation> {
    let c: Case = serde_json::from_value(case.clone()).expect("C15 case");
    oracle(&c)
}
