//! Shared drivers for the table properties C01-C05: the random (proptest)
//! part, the directed histories, and the long-history carries.

use crate::engine::*;
use crate::tables::gen::*;
use crate::tables::types::*;
use rayon::prelude::*;
use serde_json::json;
use std::collections::BTreeMap;

pub type ProgOracle<'a> = &'a (dyn Fn(&Program) -> Vec<Violation> + Sync);

pub fn lcg_bytes(seed: u64, n: usize) -> Vec<u8> {
    let mut x = seed | 1;
    (0..n)
        .map(|_| {
            x = x.wrapping_mul(6364136223846793005).wrapping_add(1442695040888963407);
            (x >> 33) as u8
        })
        .collect()
}

/// one sample op per entry label of `kind`, drawn through the same decoder
pub fn catalogue(kind: Kind, seed: u64) -> BTreeMap<&'static str, Vec<Op>> {
    let mut out: BTreeMap<&'static str, Vec<Op>> = BTreeMap::new();
    for round in 0..400u64 {
        let bytes = lcg_bytes(mix(seed, kind.name(), round), 600);
        let mut s = Choices::new(&bytes);
        let p = gen_program_of(&mut s, kind);
        for op in p.ops {
            let op = match op {
                Op::Repeat(o, _) => *o,
                o => o,
            };
            // the directed histories repeat catalogue ops 255..257 times and 65536 times: keep the
            // rare giant strings (generated for the random programs) out of them
            if matches!(&op, Op::RhctIsa(n) if *n > 300) || matches!(&op, Op::RimtPlat { name_len, .. } if *name_len > 300) {
                continue;
            }
            let v = out.entry(op.label()).or_default();
            if v.len() < 3 {
                v.push(op);
            }
        }
    }
    out
}

pub fn plain_program(kind: Kind, seed: u64) -> Program {
    let bytes = lcg_bytes(mix(seed, kind.name(), 7777), 64);
    let mut s = Choices::new(&bytes);
    let mut p = gen_program_of(&mut s, kind);
    p.ops.clear();
    if let Ctor::Sdt { len, .. } = &mut p.ctor {
        *len = 36 + (*len % 64);
    }
    if let Ctor::Slit(n) = &mut p.ctor {
        *n = 8;
    }
    p
}

/// ops that may be repeated freely in directed histories
fn freely_repeatable(op: &Op) -> bool {
    !matches!(
        op,
        Op::Imsic { via_add_imsic: true, .. } | Op::Tpm2Log(..) | Op::Sdt(..) | Op::Tcpa(..) | Op::Fadt(..) | Op::FacsField(..) | Op::Cfmws { .. }
    ) || matches!(op, Op::Cfmws { ways, targets, .. } if targets.len() as u32 == WAYS_COUNT[*ways as usize])
}

/// handle-referencing ops need their referents first; returns a valid prelude
fn prelude_for(op: &Op, cat: &BTreeMap<&'static str, Vec<Op>>) -> Vec<Op> {
    let first = |l: &str| cat.get(l).and_then(|v| v.first()).cloned();
    let zero_refs = |o: Op| -> Op {
        match o {
            Op::PpttCache { sets } => Op::PpttCache { sets: sets.into_iter().filter(|s| !matches!(s, CacheSet::Next(_))).collect() },
            Op::RimtIommu { .. } => o,
            o => o,
        }
    };
    match op {
        Op::PpttProc { .. } | Op::PpttCache { .. } => first("cache").map(zero_refs).into_iter().collect(),
        Op::RhctHart { .. } => vec![Op::RhctIsa(6), Op::RhctCmo(1, 2, 3)],
        Op::RimtRc { .. } | Op::RimtPlat { .. } => first("iommu").into_iter().collect(),
        Op::ViotPciRange { .. } | Op::ViotMmioEp { .. } => vec![Op::ViotMmioIommu(0x1000)],
        _ => vec![],
    }
}

/// rewrite handle indices so that they refer to the prelude's handle 0
/// (or drop the references when there is no prelude)
fn rebase_refs(op: &Op, have: bool) -> Op {
    let mut o = op.clone();
    if let Op::SlitSet(a, b, _) = &mut o {
        // directed SLIT histories run on an 8x8 matrix
        *a %= 8;
        *b %= 8;
    }
    if !have {
        match &mut o {
            Op::PpttCache { sets } => sets.retain(|s| !matches!(s, CacheSet::Next(_))),
            Op::PpttProc { parent, res, .. } => {
                *parent = None;
                res.clear();
            }
            Op::RimtRc { maps, .. } | Op::RimtPlat { maps, .. } => *maps = None,
            _ => {}
        }
        return o;
    }
    match &mut o {
        Op::PpttCache { sets } => {
            for s in sets.iter_mut() {
                if let CacheSet::Next(i) = s {
                    *i = 0;
                }
            }
        }
        Op::PpttProc { parent, res, .. } => {
            *parent = None;
            for r in res.iter_mut() {
                *r = 0;
            }
        }
        Op::RhctHart { isa, cmos, .. } => {
            *isa = 0;
            for c in cmos.iter_mut() {
                *c = 0;
            }
        }
        Op::RimtRc { maps, .. } | Op::RimtPlat { maps, .. } => {
            if let Some(v) = maps {
                for m in v.iter_mut() {
                    m.iommu = 0;
                }
            }
        }
        Op::ViotPciRange { h, .. } | Op::ViotMmioEp { h, .. } => *h = 0,
        _ => {}
    }
    o
}

/// Directed histories (always run, not sampled): for each kind and each entry
/// label: [], [e], e x 255/256/257, and every ordered pair of labels.
pub fn directed_programs(kinds: &[Kind], seed: u64) -> Vec<Program> {
    let mut out = Vec::new();
    for &k in kinds {
        let base = plain_program(k, seed);
        out.push(base.clone());
        let cat = catalogue(k, seed);
        let labels: Vec<&&'static str> = cat.keys().collect();
        for l in &labels {
            for op in &cat[**l] {
                let pre = prelude_for(op, &cat);
                let op = rebase_refs(op, !pre.is_empty());
                let mut p = base.clone();
                p.ops = pre.clone();
                p.ops.push(op.clone());
                out.push(p);
                if freely_repeatable(&op) {
                    for n in [255u32, 256, 257] {
                        let mut p = base.clone();
                        p.ops = pre.clone();
                        p.ops.push(Op::Repeat(Box::new(op.clone()), n));
                        out.push(p);
                    }
                }
            }
        }
        if k == Kind::Slit {
            // locality counts around the byte carry of the count field, with assignments at the
            // corners of the matrix
            for n in [1u32, 2, 255, 256, 257, 300] {
                let mut p = base.clone();
                p.ctor = Ctor::Slit(n);
                out.push(p.clone());
                p.ops = vec![Op::SlitSet(0, n - 1, 0x21), Op::SlitSet(n - 1, n - 1, 0x42), Op::SlitSet(n / 2, 0, 0xff), Op::SlitSet(0, 0, 11)];
                out.push(p.clone());
                // assignments to domains outside the matrix (refused or not, the table must stay
                // valid), followed by an ordinary one
                for (a, b) in [(n, 0), (n + 1, 0), (0, n), (n - 1, n + 1), (n, n), (2 * n + 1, n - 1)] {
                    let mut q = p.clone();
                    q.ops = vec![Op::SlitSet(0, n - 1, 0x21), Op::SlitSet(a, b, 77), Op::SlitSet(n - 1, 0, 0x33)];
                    out.push(q);
                }
            }
        }
        if k == Kind::Rimt {
            // an IOMMU that starts beyond 64 KiB, referenced by later ID mappings (offsets are dwords)
            let iommu = |id: u16| Op::RimtIommu { id, base: Some(0x1000 + id as u64), pci: None, prox: None, wires: None };
            let m = |iommu: u32| IdMap { src: 1, dst: 2, n: 3, iommu, ats: true, pri: false, rciep: false };
            let mut p = base.clone();
            p.ops = vec![
                iommu(1),
                Op::Repeat(Box::new(Op::RimtRc { id: 7, seg: 1, ats: false, pri: false, maps: None }), 4_100),
                iommu(2),
                Op::RimtRc { id: 8, seg: 2, ats: true, pri: true, maps: Some(vec![m(1), m(0)]) },
                Op::RimtPlat { id: 9, name_len: 5, maps: Some(vec![m(1)]) },
            ];
            out.push(p);
        }
        if k == Kind::Hmat {
            // a side cache at the limit of its 16-bit handle count (the helper then attempts one more,
            // which must be refused without a trace), followed by an ordinary structure
            let mut p = base.clone();
            p.ops = vec![Op::HmatCache { pd: 1, size: 2, total: 1, level: 1, assoc: 1, policy: 1, line: 64, handles: (0..65_535u32).map(|i| i as u16).collect() }, Op::HmatProx(1, 2)];
            out.push(p);
        }
        if k == Kind::Cedt {
            let mut p = base.clone();
            p.ops = vec![Op::Cxims { gran: 1, maps: (0..255u64).collect() }, Op::Chbs(1, 1, 0x1000)];
            out.push(p);
        }
        if k == Kind::Fadt {
            // every pub field of the builder written directly (index 42 is the checksum byte itself)
            // a Length field set below the real size while the tail fields are non-zero
            for len in [0u64, 36, 244, 268, 275, 276, 300] {
                let mut p = base.clone();
                p.ops = vec![Op::Fadt(FadtSet::Field(41, 0x1122_3344_5566_7788)), Op::Fadt(FadtSet::Field(40, 0x0102_0304_0506_0708)), Op::Fadt(FadtSet::Field(43, len))];
                out.push(p);
            }
            for i in 0..43u8 {
                let mut p = base.clone();
                p.ops = vec![Op::Fadt(FadtSet::Field(i, 0x5a5b_5c5d_5e5f_6061u64.wrapping_add(i as u64))), Op::Fadt(FadtSet::AcpiEnable)];
                out.push(p);
            }
        }
        // ordered pairs of entry kinds (mixtures)
        for a in &labels {
            for b in &labels {
                let mut pre = prelude_for(&cat[**a][0], &cat);
                for x in prelude_for(&cat[**b][cat[**b].len() - 1], &cat) {
                    if !pre.contains(&x) {
                        pre.push(x);
                    }
                }
                let oa = rebase_refs(&cat[**a][0], !pre.is_empty());
                let ob = rebase_refs(&cat[**b][cat[**b].len() - 1], !pre.is_empty());
                let mut p = base.clone();
                p.ops = pre;
                p.ops.push(oa);
                p.ops.push(ob);
                out.push(p);
            }
        }
    }
    out
}

/// Long histories that carry every count/length field across 65535 -> 65536
/// (entries and bytes); one per incrementally maintained table, cheapest entry.
pub fn long_programs(kinds: &[Kind], seed: u64, quick: bool) -> Vec<Program> {
    let mut out = Vec::new();
    for &k in kinds {
        let (op, n): (Op, u32) = match k {
            Kind::Xsdt => (Op::XsdtEntry(0x1122_3344_5566_7788), 65_537),
            Kind::Mcfg => (Op::Ecam(0xc000_0000, 1, 0, 0xff), 65_537),
            Kind::Madt => (Op::Lapic(1, 2, 1), 65_537),
            Kind::Srat => (Op::SratRintc { uid: [1, 2, 3, 4], clock: 5, pd: Some(6), enabled: 1 }, 65_537),
            Kind::Hmat => (Op::HmatProx(1, 2), 65_537),
            Kind::Pptt => (Op::PpttCache { sets: vec![CacheSet::Size(64)] }, 65_537),
            Kind::Rhct => (Op::RhctMmu(1), 65_537),
            Kind::Rimt => (Op::RimtRc { id: 1, seg: 2, ats: true, pri: false, maps: None }, 65_537),
            Kind::Cedt => (Op::Cxims { gran: 1, maps: vec![] }, 65_537),
            Kind::Hest => (Op::AerDev { dev: None, sets: vec![] }, 65_537),
            // VIOT handles are 16-bit offsets: stay below 64 KiB (beyond is C18's subject)
            Kind::Viot => (Op::ViotMmioIommu(0x1000), 4_000),
            // RQSC re-serialises on every add (quadratic): bounded
            Kind::Rqsc => (Op::RqscCtl { ty: 0, reg: GasV { pci: false, space: 0, width: 64, offset: 0, access: 4, addr: 0x1000, dev: 0, func: 0, reg: 0 }, rcid: 1, mcid: 2, flags: 0, res: vec![] }, if quick { 700 } else { 3_000 }),
            _ => continue,
        };
        let n = if quick && n > 4_000 && !matches!(k, Kind::Xsdt | Kind::Hest | Kind::Rimt | Kind::Rhct) { 4_200 } else { n };
        let mut p = plain_program(k, seed);
        p.ops = vec![Op::Repeat(Box::new(op), n)];
        out.push(p);
    }
    out
}

pub fn classify_program(p: &Program, labels: &mut Vec<String>) {
    labels.push(format!("kind:{}", p.kind.name()));
    if p.ops.is_empty() {
        labels.push("empty-history".into());
    }
    let flat = p.flat_len();
    if flat >= 256 {
        labels.push("history>=256".into());
    }
    if p.ops.iter().any(|o| matches!(o, Op::Repeat(..))) {
        labels.push("has-repeat".into());
    }
    let mut kinds = std::collections::BTreeSet::new();
    for o in &p.ops {
        kinds.insert(o.label());
    }
    for l in &kinds {
        labels.push(format!("entry:{}:{}", p.kind.name(), l));
    }
    if kinds.len() >= 2 {
        labels.push("mixed-entry-kinds".into());
    }
}

/// run the random part
pub fn table_pt(ctx: &Ctx, name: &str, kinds: &'static [Kind], cases: u64, oracle: ProgOracle, nontrivial: &(dyn Fn(&Program) -> bool + Sync)) {
    let decode = move |s: &mut Choices| gen_program(s, kinds);
    run_pt(
        ctx,
        Pt {
            name,
            cases,
            max_len: 1500,
            decode: &decode,
            oracle,
            nontrivial,
            classify: &classify_program,
            to_json: &|p: &Program| serde_json::to_value(p).unwrap(),
        },
    );
}

/// run a fixed list of programs in parallel; violations become replay files
/// that carry the program's position in the (deterministic) list
pub fn table_list(ctx: &Ctx, check: &str, progs: Vec<Program>, oracle: ProgOracle, nontrivial: &(dyn Fn(&Program) -> bool + Sync)) {
    let results: Vec<(usize, Vec<Violation>, bool, u64)> = progs
        .par_iter()
        .enumerate()
        .map(|(i, p)| {
            let vs = guarded(&ctx.prop, &|p: &Program| oracle(p), p);
            (i, vs, nontrivial(p), fingerprint(p))
        })
        .collect();
    ctx.add_evals(progs.len() as u64);
    ctx.add_engine(&format!("directed:{}", check), progs.len() as u64);
    let mut fps = Vec::new();
    for (i, vs, nt, fp) in results {
        if nt {
            fps.push(fp);
        }
        if !vs.is_empty() {
            let replay = json!({"case": serde_json::to_value(&progs[i]).unwrap()});
            ctx.report(check, replay, vs);
        }
    }
    ctx.add_nontrivial(fps);
    let mut labels = Vec::new();
    for p in &progs {
        labels.clear();
        classify_program(p, &mut labels);
        for l in &labels {
            ctx.add_class(l, 1);
        }
    }
    if let Some(p) = progs.iter().find(|p| p.flat_len() >= 256) {
        ctx.add_sample(json!(trunc(format!("{:?}", p), 500)));
    }
}

pub const CHECKSUMMED: &[Kind] = &[
    Kind::Xsdt,
    Kind::Mcfg,
    Kind::Madt,
    Kind::Srat,
    Kind::Slit,
    Kind::Hmat,
    Kind::Pptt,
    Kind::Rhct,
    Kind::Rimt,
    Kind::Viot,
    Kind::Cedt,
    Kind::Hest,
    Kind::Rqsc,
    Kind::Tpm2,
    Kind::TcpaClient,
    Kind::TcpaServer,
    Kind::Fadt,
    Kind::Bert,
    Kind::Spcr,
    Kind::Sdt,
    Kind::Rsdp,
];

pub fn sum8(b: &[u8]) -> u8 {
    b.iter().fold(0u8, |a, x| a.wrapping_add(*x))
}
pub fn le32(b: &[u8], o: usize) -> u32 {
    u32::from_le_bytes([b[o], b[o + 1], b[o + 2], b[o + 3]])
}
pub fn le16(b: &[u8], o: usize) -> u16 {
    u16::from_le_bytes([b[o], b[o + 1]])
}
pub fn le64(b: &[u8], o: usize) -> u64 {
    let mut a = [0u8; 8];
    a.copy_from_slice(&b[o..o + 8]);
    u64::from_le_bytes(a)
}
