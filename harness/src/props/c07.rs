//! C07 — PkgLength encodings are correct for every representable length.

use crate::engine::*;
use acpi_tables::{aml, Aml};
use rayon::prelude::*;
use serde_json::json;

/// ACPI 6.5 20.2.4: decode a PkgLength; returns (value, bytes used) or a reason
pub fn pkglen_decode(b: &[u8]) -> Result<(usize, usize), &'static str> {
    let lead = *b.first().ok_or("empty")?;
    let follow = (lead >> 6) as usize;
    if follow == 0 {
        return Ok(((lead & 0x3f) as usize, 1));
    }
    if lead & 0x30 != 0 {
        return Err("reserved bits 5-4 of the lead byte set");
    }
    if b.len() < 1 + follow {
        return Err("truncated");
    }
    let mut v = (lead & 0x0f) as usize;
    for i in 0..follow {
        v |= (b[1 + i] as usize) << (4 + 8 * i);
    }
    Ok((v, 1 + follow))
}

/// number of PkgLength bytes of the shortest encoding that includes itself
pub fn shortest_incl(n: usize) -> Option<usize> {
    const MAX: [usize; 4] = [63, 4095, (1 << 20) - 1, (1 << 28) - 1];
    (1..=4).find(|k| n + k <= MAX[k - 1])
}

pub fn check_incl(n: usize, enc: &[u8]) -> Option<(&'static str, String)> {
    match pkglen_decode(enc) {
        Err(r) => Some(("format", r.to_string())),
        Ok((v, used)) => {
            if used != enc.len() {
                Some(("format", "follow-byte count disagrees with the encoding length".into()))
            } else if v != n + enc.len() {
                Some(("value", format!("width={}", enc.len())))
            } else if Some(enc.len()) != shortest_incl(n) {
                Some(("not-shortest", format!("width={} shortest={:?}", enc.len(), shortest_incl(n))))
            } else {
                None
            }
        }
    }
}

pub fn check_excl(n: usize, enc: &[u8]) -> Option<(&'static str, String)> {
    match pkglen_decode(enc) {
        Err(r) => Some(("format", r.to_string())),
        Ok((v, used)) => {
            if used != enc.len() {
                Some(("format", "follow-byte count disagrees with the encoding length".into()))
            } else if v != n {
                Some(("value", format!("width={}", enc.len())))
            } else {
                None
            }
        }
    }
}

fn vio(form: &str, kind: &str, detail: String, n: usize, enc: &[u8]) -> Violation {
    Violation::new("C07", &format!("pkglength/{}", form), &format!("pkglen-{}", kind), detail, format!("n={} bytes={:02x?}", n, enc))
}

fn near_boundary(n: usize) -> bool {
    [63usize, 4095, 1 << 20, 1 << 28, 62, 4093, (1 << 20) - 4].iter().any(|b| n.abs_diff(*b) <= 8)
}
fn multi_nibble(n: usize) -> bool {
    let groups = [(n >> 4) & 0xff, (n >> 12) & 0xff, (n >> 20) & 0xff];
    groups.iter().filter(|g| **g != 0).count() >= 2
}

/// exclusive form through the public API: a Field with one named and one reserved entry
pub fn field_entry_encodings(n: usize) -> (Vec<u8>, Vec<u8>, Vec<u8>) {
    let mut bytes = Vec::new();
    aml::Field::new(
        "FLD0".into(),
        aml::FieldAccessType::Any,
        aml::FieldLockRule::NoLock,
        aml::FieldUpdateRule::Preserve,
        vec![aml::FieldEntry::Named(*b"ABCD", n), aml::FieldEntry::Reserved(n)],
    )
    .to_aml_bytes(&mut bytes);
    // 5B 81 PkgLength "FLD0" flags "ABCD" pl 00 pl
    let (_, used) = pkglen_decode(&bytes[2..]).unwrap_or((0, 1));
    let body = &bytes[2 + used + 5..];
    let (named, reserved) = if body.len() >= 6 && &body[..4] == b"ABCD" {
        let w = (body.len() - 5) / 2;
        (body[4..4 + w].to_vec(), body[4 + w + 1..].to_vec())
    } else {
        (vec![], vec![])
    };
    (bytes, named, reserved)
}

pub fn check_field(n: usize) -> Vec<Violation> {
    let mut out = Vec::new();
    let (all, named, reserved) = field_entry_encodings(n);
    if named.is_empty() || named != reserved {
        out.push(Violation::new("C07", "pkglength/field-entry", "pkglen-format", "named/reserved entries differ or are missing".into(), format!("n={} bytes={:02x?}", n, all)));
        return out;
    }
    if let Some((k, d)) = check_excl(n, &named) {
        out.push(vio("field-entry", k, d, n, &named));
    }
    // the Field object itself is an inclusive length over its body
    let (v, used) = pkglen_decode(&all[2..]).unwrap_or((0, 0));
    if v != all.len() - 2 {
        out.push(Violation::new("C07", "pkglength/Field", "pkglen-value", format!("width={}", used), format!("n={} decoded={} actual={}", n, v, all.len() - 2)));
    }
    out
}

pub fn run(ctx: &Ctx) {
    ctx.set_rule("(a) every n in 0..2^28 through the guarded pass-through to the private encoder, in the self-inclusive form (for n + width < 2^28) and the exclusive form, decoded by the specification rule; inclusive must decode to n + width, use the lead-byte format and be the shortest encoding that can include itself; exclusive must decode to n. (b) real length-prefixed objects of every kind with filler bodies around every width boundary (added by the AML module). (c) named/reserved field widths through the public Field constructor. Non-trivial = n within +-8 of a width boundary or with >= 2 non-zero follow-byte groups; all n are distinct by enumeration. (c) the package builder used as a sink, serialised before it is complete, extended after a serialisation, and after an element that panicked half-way: its PkgLength must decode to the bytes that follow.");
    ctx.assume("hook: cfg(rust_vmm_acpi_tables_verif) exposes create_pkg_length unchanged (verif_create_pkg_length)");
    ctx.assume("lengths n with n + 4 >= 2^28 are not representable in the inclusive form; their refusal is C18's subject");
    const LIMIT: usize = 1 << 28;
    let chunks: Vec<(usize, usize)> = (0..4096).map(|i| (i * (LIMIT / 4096), (i + 1) * (LIMIT / 4096))).collect();
    let res: Vec<(u64, Vec<Violation>)> = chunks
        .par_iter()
        .map(|(lo, hi)| {
            let mut nt = 0u64;
            let mut out: Vec<Violation> = Vec::new();
            for n in *lo..*hi {
                if near_boundary(n) || multi_nibble(n) {
                    nt += 1;
                }
                if n + 4 < LIMIT || shortest_incl(n).is_some() {
                    let enc = aml::verif_create_pkg_length(n, true);
                    if let Some((k, d)) = check_incl(n, &enc) {
                        if out.len() < 3 {
                            out.push(vio("inclusive", k, d, n, &enc));
                        }
                    }
                }
                let enc = aml::verif_create_pkg_length(n, false);
                if let Some((k, d)) = check_excl(n, &enc) {
                    if out.len() < 3 {
                        out.push(vio("exclusive", k, d, n, &enc));
                    }
                }
            }
            (nt, out)
        })
        .collect();
    let mut all: Vec<Violation> = Vec::new();
    let mut nt = 0;
    for (c, v) in res {
        nt += c;
        all.extend(v);
    }
    ctx.add_evals(2 * LIMIT as u64);
    ctx.add_nontrivial_counted(nt);
    ctx.add_subdomain("create_pkg_length(n, inclusive) and (n, exclusive) for all n < 2^28", 2 * LIMIT as u64, true);
    ctx.add_engine("enumeration:c07.encoder", 2 * LIMIT as u64);
    all.sort_by_key(|v| (v.sig(), v.info.len(), v.info.clone()));
    all.dedup_by_key(|v| v.sig());
    for v in all {
        let n: usize = v.info.split(' ').next().and_then(|s| s.strip_prefix("n=")).and_then(|s| s.parse().ok()).unwrap_or(0);
        ctx.report("c07.encoder", json!({"case": {"n": n}}), vec![v]);
    }
    ctx.add_sample(json!({"n": 62, "inclusive": format!("{:02x?}", aml::verif_create_pkg_length(62, true)), "exclusive": format!("{:02x?}", aml::verif_create_pkg_length(62, false))}));
    ctx.add_sample(json!({"n": 4094, "inclusive": format!("{:02x?}", aml::verif_create_pkg_length(4094, true))}));
    ctx.add_sample(json!({"n": (1 << 20) - 3, "inclusive": format!("{:02x?}", aml::verif_create_pkg_length((1 << 20) - 3, true))}));

    // (c) public API, exclusive form
    let mut ns: Vec<usize> = (0..5000).collect();
    for b in [1usize << 12, 1 << 16, 1 << 20, 1 << 24, (1 << 28) - 1] {
        for d in 0..24 {
            ns.push(b.saturating_sub(d));
            if b + d < LIMIT {
                ns.push(b + d);
            }
        }
    }
    let extra = ctx.scale(200_000, 4_000_000) as usize;
    let mut x = mix(ctx.seed, "c07.field", 0);
    for _ in 0..extra {
        x = x.wrapping_mul(6364136223846793005).wrapping_add(1442695040888963407);
        ns.push((x >> 36) as usize & (LIMIT - 1));
    }
    let vs: Vec<(usize, Vec<Violation>)> = ns.par_iter().map(|n| (*n, check_field(*n))).filter(|(_, v)| !v.is_empty()).collect();
    ctx.add_evals(ns.len() as u64);
    ctx.add_engine("enumeration:c07.field-entries", ns.len() as u64);
    ctx.add_subdomain("FieldEntry::Named/Reserved widths through Field::new (0..5000, boundary neighbourhoods, random)", ns.len() as u64, false);
    let mut seen = std::collections::HashSet::new();
    for (n, v) in vs {
        for x in v {
            if seen.insert(x.sig()) {
                ctx.report("c07.field", json!({"case": {"field": n}}), vec![x]);
            }
        }
    }
    super::amlprops::c07_objects(ctx);
}

pub fn replay(case: &serde_json::Value) -> Vec<Violation> {
    let mut out = Vec::new();
    if let Some(n) = case["n"].as_u64() {
        let n = n as usize;
        if shortest_incl(n).is_some() {
            let enc = aml::verif_create_pkg_length(n, true);
            if let Some((k, d)) = check_incl(n, &enc) {
                out.push(vio("inclusive", k, d, n, &enc));
            }
        }
        let enc = aml::verif_create_pkg_length(n, false);
        if let Some((k, d)) = check_excl(n, &enc) {
            out.push(vio("exclusive", k, d, n, &enc));
        }
    }
    if let Some(n) = case["field"].as_u64() {
        out.extend(check_field(n as usize));
    }
    if case.get("object").is_some() {
        out.extend(super::amlprops::c07_replay(case));
    }
    out
}
