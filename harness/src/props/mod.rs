pub mod c01;
pub mod amlprops;
pub mod c02;
pub mod c03;
pub mod c04;
pub mod c05;
pub mod c06;
pub mod c07;
pub mod c08;
pub mod c09;
pub mod c10;
pub mod c11;
pub mod c12;
pub mod c13;
pub mod c14;
pub mod c15;
pub mod c16;
pub mod c17;
pub mod c18;
pub mod common;

use crate::engine::{Ctx, Violation};

pub fn run(ctx: &Ctx) -> bool {
    match ctx.prop.as_str() {
        "C01" => c01::run(ctx),
        "C02" => c02::run(ctx),
        "C03" => c03::run(ctx),
        "C04" => c04::run(ctx),
        "C05" => c05::run(ctx),
        "C06" => c06::run(ctx),
        "C07" => c07::run(ctx),
        "C08" => c08::run(ctx),
        "C09" => c09::run(ctx),
        "C10" => c10::run(ctx),
        "C11" => c11::run(ctx),
        "C12" => c12::run(ctx),
        "C13" => c13::run(ctx),
        "C14" => c14::run(ctx),
        "C15" => c15::run(ctx),
        "C16" => c16::run(ctx),
        "C17" => c17::run(ctx),
        "C18" => c18::run(ctx),
        _ => return false,
    }
    // the other arithmetic profile (overflow checks on) as a child process: always for the
    // properties whose subject is arithmetic (C17; C18 does it itself) and, since a change can make a
    // valid input panic in one profile only, for every other property too
    // (quick tier: a quarter of the generated cases, all directed cases)
    if ctx.prop != "C18" {
        run_other_profile(ctx);
    }
    // Engine C: coverage-guided campaign over the same decoder and oracle (thorough tier)
    if !ctx.quick() {
        crate::fuzzapi::campaign(ctx, ctx.scale(0, 800_000));
    }
    true
}

/// strict replay of one stored case
pub fn replay(prop: &str, check: &str, payload: &serde_json::Value) -> Option<Vec<Violation>> {
    let case = &payload["case"];
    let _ = check;
    Some(match prop {
        "C01" => c01::replay(case),
        "C02" => c02::replay(case),
        "C03" => c03::replay(case),
        "C04" => c04::replay(case),
        "C05" => c05::replay(case),
        "C06" => c06::replay(case),
        "C07" => c07::replay(case),
        "C08" => c08::replay(case),
        "C09" => c09::replay(case),
        "C10" => c10::replay(case),
        "C11" => c11::replay(case),
        "C12" => c12::replay(case),
        "C13" => c13::replay(case),
        "C14" => c14::replay(case),
        "C15" => c15::replay(case),
        "C16" => c16::replay(case),
        "C17" => c17::replay(case),
        "C18" => c18::replay(case),
        _ => return None,
    })
}

/// run the same check in the build with overflow checks and debug assertions on, merge its summary
pub fn run_other_profile(ctx: &Ctx) {
    if std::env::var("ACPIV_CHILD").is_ok() {
        return;
    }
    let Ok(bin) = std::env::var("ACPIV_CHK_BIN") else {
        ctx.note("overflow-checking build not exercised (ACPIV_CHK_BIN not set; use ./check)".into());
        return;
    };
    if !std::path::Path::new(&bin).exists() {
        ctx.note("overflow-checking build not exercised (chk binary missing)".into());
        return;
    }
    let out = std::process::Command::new(&bin)
        .args(["check", &ctx.prop, if ctx.quick() { "quick" } else { "thorough" }])
        .env("ACPIV_CHILD", "1")
        .env("ACPIV_NO_FUZZ", "1")
        .env("ACPIV_SCALE", if ctx.prop == "C17" && ctx.quick() { "1" } else if ctx.quick() { "0.25" } else { "0.1" })
        .env("VERIF_SEED", ctx.seed.to_string())
        .env("ACPIV_ROOT", &ctx.root)
        .output();
    match out {
        Ok(o) => {
            let txt = String::from_utf8_lossy(&o.stdout);
            match txt.lines().find_map(|l| l.strip_prefix("CHILD-SUMMARY ")) {
                Some(js) => {
                    let v: serde_json::Value = serde_json::from_str(js).unwrap_or(serde_json::json!({}));
                    ctx.merge_child(&v);
                    ctx.note("the build with overflow checks on ran the same check as a child process (its classes/engines are prefixed chk:)".into());
                }
                None => {
                    ctx.report("child", serde_json::json!({}), vec![Violation::new(&ctx.prop, "harness", "harness-panic", "child run (chk profile) produced no summary".into(), crate::engine::trunc(txt.to_string(), 300))]);
                }
            }
        }
        Err(e) => {
            ctx.report("child", serde_json::json!({}), vec![Violation::new(&ctx.prop, "harness", "harness-panic", format!("cannot run the chk binary: {}", e), String::new())]);
        }
    }
}
