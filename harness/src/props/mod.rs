pub mod c01;
pub mod c02;
pub mod common;

use crate::engine::{Ctx, Violation};

pub fn run(ctx: &Ctx) -> bool {
    match ctx.prop.as_str() {
        "C01" => c01::run(ctx),
        "C02" => c02::run(ctx),
        _ => return false,
    }
    true
}

/// strict replay of one stored case
pub fn replay(prop: &str, check: &str, payload: &serde_json::Value) -> Option<Vec<Violation>> {
    let case = &payload["case"];
    let _ = check;
    Some(match prop {
        "C01" => c01::replay(case),
        "C02" => c02::replay(case),
        _ => return None,
    })
}
