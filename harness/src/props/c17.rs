//! C17 — the public checksum accumulator is a faithful mod-256 sum with exact
//! inverses. Oracle: wide-integer reference.

use crate::engine::*;
use acpi_tables::{AmlSink, Checksum};
use serde::{Deserialize, Serialize};
use serde_json::json;

#[derive(Clone, Debug, Hash, Serialize, Deserialize)]
pub enum CkOp {
    Add(u8),
    Sub(u8),
    Append(Vec<u8>),
    Delete(Vec<u8>),
    SinkByte(u8),
    SinkWord(u16),
    SinkDword(u32),
    SinkQword(u64),
    SinkVec(Vec<u8>),
    /// append(x) then delete(x): must restore the state exactly
    AddThenRemove(Vec<u8>),
}

fn gen_vec(s: &mut Choices) -> Vec<u8> {
    let n = match s.below(8) {
        0 => 0,
        1 => 1,
        2 => 255 + s.below(4) as usize,
        // long slices: a wide-lane accumulation only overflows after hundreds of heavy bytes
        3 => 500 + s.below(1600) as usize,
        4 => 4090 + s.below(12) as usize,
        _ => s.below(40) as usize,
    };
    let mode = s.below(3);
    (0..n)
        .map(|_| match mode {
            0 => 0xff,
            1 => 0x80,
            _ => s.byte(),
        })
        .collect()
}

pub fn decode(s: &mut Choices) -> Vec<CkOp> {
    let mut ops = Vec::new();
    while !s.exhausted() && ops.len() < 200 {
        ops.push(match s.below(10) {
            0 => CkOp::Add(s.u8()),
            1 => CkOp::Sub(s.u8()),
            2 => CkOp::Append(gen_vec(s)),
            3 => CkOp::Delete(gen_vec(s)),
            4 => CkOp::SinkByte(s.u8()),
            5 => CkOp::SinkWord(s.u16()),
            6 => CkOp::SinkDword(s.u32()),
            7 => CkOp::SinkQword(s.u64()),
            8 => CkOp::SinkVec(gen_vec(s)),
            _ => CkOp::AddThenRemove(gen_vec(s)),
        });
    }
    ops
}

fn vio(kind: &str, detail: String, info: String) -> Violation {
    Violation::new("C17", "Checksum", kind, detail, info)
}

pub fn oracle(ops: &Vec<CkOp>) -> Vec<Violation> {
    // the accumulator accepts every byte string: a panic (e.g. an arithmetic overflow trap in a
    // build with overflow checks) is a violation, not an infrastructure problem
    match std::panic::catch_unwind(|| oracle_inner(ops)) {
        Ok(v) => v,
        Err(_) => vec![vio("panicked", format!("overflow-checks:{}", if overflow_checks_on() { "on" } else { "off" }), format!("ops={}", ops.len()))],
    }
}

fn oracle_inner(ops: &Vec<CkOp>) -> Vec<Violation> {
    let mut c = Checksum::default();
    let mut model: i128 = 0;
    let mut out = Vec::new();
    let sum = |v: &[u8]| -> i128 { v.iter().map(|x| *x as i128).sum() };
    for (i, op) in ops.iter().enumerate() {
        let name = match op {
            CkOp::Add(b) => {
                c.add(*b);
                model += *b as i128;
                "add"
            }
            CkOp::Sub(b) => {
                c.sub(*b);
                model -= *b as i128;
                "sub"
            }
            CkOp::Append(v) => {
                c.append(v);
                model += sum(v);
                "append"
            }
            CkOp::Delete(v) => {
                c.delete(v);
                model -= sum(v);
                "delete"
            }
            CkOp::SinkByte(b) => {
                AmlSink::byte(&mut c, *b);
                model += *b as i128;
                "sink-byte"
            }
            CkOp::SinkWord(w) => {
                AmlSink::word(&mut c, *w);
                model += sum(&w.to_le_bytes());
                "sink-word"
            }
            CkOp::SinkDword(w) => {
                AmlSink::dword(&mut c, *w);
                model += sum(&w.to_le_bytes());
                "sink-dword"
            }
            CkOp::SinkQword(w) => {
                AmlSink::qword(&mut c, *w);
                model += sum(&w.to_le_bytes());
                "sink-qword"
            }
            CkOp::SinkVec(v) => {
                AmlSink::vec(&mut c, v);
                model += sum(v);
                "sink-vec"
            }
            CkOp::AddThenRemove(v) => {
                let before = c.raw_value();
                c.append(v);
                c.delete(v);
                if c.raw_value() != before {
                    out.push(vio("inverse", "append-delete".into(), format!("op={} before={} after={}", i, before, c.raw_value())));
                }
                for b in v.iter().take(4) {
                    let before = c.raw_value();
                    c.add(*b);
                    c.sub(*b);
                    if c.raw_value() != before {
                        out.push(vio("inverse", "add-sub".into(), format!("op={} byte={}", i, b)));
                    }
                }
                "add-then-remove"
            }
        };
        let want = model.rem_euclid(256) as u8;
        if c.raw_value() != want {
            out.push(vio("accumulator", format!("after:{}", name), format!("op={} raw={} want={}", i, c.raw_value(), want)));
            return out;
        }
        if c.raw_value().wrapping_add(c.value()) != 0 {
            out.push(vio("complement", format!("after:{}", name), format!("op={} raw={} value={}", i, c.raw_value(), c.value())));
            return out;
        }
    }
    out
}

fn state(v: u8) -> Checksum {
    let mut c = Checksum::default();
    c.add(v);
    c
}

pub fn run(ctx: &Ctx) {
    ctx.set_rule("exhaustive: all 256 accumulator states x 256 byte values for add, sub, add-then-sub, sub-then-add, one-byte append/delete and the sink byte entry; random: sequences of up to 200 operations over {add, sub, append, delete, sink byte/word/dword/qword/vec, add-then-remove} on generated byte strings against an i128 reference, raw_value and raw+value==0 checked after every operation. Non-trivial (random part) = sequence with at least one removal and one multi-byte operation; distinct by hash of the sequence.");
    // exhaustive single-byte table
    let mut n = 0u64;
    let mut vs = Vec::new();
    for s in 0..=255u8 {
        if state(s).raw_value() != s {
            vs.push(vio("accumulator", "state-setup".into(), format!("s={}", s)));
        }
        for b in 0..=255u8 {
            let mut c = state(s);
            c.add(b);
            if c.raw_value() != s.wrapping_add(b) {
                vs.push(vio("accumulator", "add-table".into(), format!("s={} b={} got={}", s, b, c.raw_value())));
            }
            if c.raw_value().wrapping_add(c.value()) != 0 {
                vs.push(vio("complement", "add-table".into(), format!("s={} b={}", s, b)));
            }
            c.sub(b);
            if c.raw_value() != s {
                vs.push(vio("inverse", "add-sub-table".into(), format!("s={} b={}", s, b)));
            }
            let mut c = state(s);
            c.sub(b);
            if c.raw_value() != s.wrapping_sub(b) {
                vs.push(vio("accumulator", "sub-table".into(), format!("s={} b={} got={}", s, b, c.raw_value())));
            }
            c.add(b);
            if c.raw_value() != s {
                vs.push(vio("inverse", "sub-add-table".into(), format!("s={} b={}", s, b)));
            }
            let mut c = state(s);
            c.append(&[b]);
            if c.raw_value() != s.wrapping_add(b) {
                vs.push(vio("accumulator", "append-table".into(), format!("s={} b={}", s, b)));
            }
            c.delete(&[b]);
            if c.raw_value() != s {
                vs.push(vio("inverse", "append-delete-table".into(), format!("s={} b={}", s, b)));
            }
            let mut c = state(s);
            AmlSink::byte(&mut c, b);
            if c.raw_value() != s.wrapping_add(b) {
                vs.push(vio("accumulator", "sink-byte-table".into(), format!("s={} b={}", s, b)));
            }
            n += 4;
            if vs.len() > 8 {
                break;
            }
        }
    }
    ctx.add_evals(n);
    ctx.add_subdomain("256 states x 256 bytes x {add,sub,append/delete,sink-byte}", n, true);
    ctx.add_nontrivial_counted(65536 - 256); // every (state, byte) pair once; byte 0 is the trivial column
    vs.truncate(4);
    vs.dedup_by_key(|v| v.sig());
    ctx.report("c17.table", json!({"case": []}), vs);
    ctx.add_sample(json!({"table": "state s, byte b: add/sub/append/delete/sink-byte"}));
    // slices of every length 0..=2100 (and 4096, 65536, 70001) of heavy fill bytes, through
    // append, delete and the sink's vec entry
    // every slice of length 1..=6 over {00,01,7f,80,ff}: append, delete, append-then-delete
    let alpha = [0x00u8, 0x01, 0x7f, 0x80, 0xff];
    let mut short = 0u64;
    let mut sv = Vec::new();
    for len in 1..=6usize {
        let total = alpha.len().pow(len as u32);
        for idx in 0..total {
            let mut k = idx;
            let data: Vec<u8> = (0..len)
                .map(|_| {
                    let b = alpha[k % alpha.len()];
                    k /= alpha.len();
                    b
                })
                .collect();
            let want: u8 = data.iter().fold(0u8, |a, b| a.wrapping_add(*b));
            let r = std::panic::catch_unwind(|| {
                let mut out = Vec::new();
                for start in [0u8, 0x5a, 0xff] {
                    let mut c = state(start);
                    c.append(&data);
                    if c.raw_value() != start.wrapping_add(want) {
                        out.push(("accumulator", "append-short-slice"));
                    }
                    c.delete(&data);
                    if c.raw_value() != start {
                        out.push(("inverse", "append-delete-short-slice"));
                    }
                    let mut c = state(start);
                    c.delete(&data);
                    if c.raw_value() != start.wrapping_sub(want) {
                        out.push(("accumulator", "delete-short-slice"));
                    }
                }
                out
            });
            match r {
                Ok(o) => {
                    for (k, d) in o {
                        sv.push(vio(k, format!("{} len={}", d, len), format!("data={:02x?}", data)));
                    }
                }
                Err(_) => sv.push(vio("panicked", format!("short-slice len={}", len), format!("data={:02x?}", data))),
            }
            short += 9;
        }
    }
    ctx.add_evals(short);
    ctx.add_subdomain("append / delete / append-then-delete of every slice of length 1..=6 over {00,01,7f,80,ff} from 3 states", short, true);
    ctx.add_nontrivial_counted(short / 9);
    sv.sort_by_key(|v| v.sig());
    sv.dedup_by_key(|v| v.sig());
    ctx.report("c17.table", json!({"case": []}), sv);
    let mut lens: Vec<usize> = (0..=2100).collect();
    lens.extend([4095usize, 4096, 4097, 65_535, 65_536, 70_001]);
    let mut m = 0u64;
    let mut lv = Vec::new();
    for fill in [0xffu8, 0x80, 0xc1, 0x01] {
        for &n in &lens {
            let data = vec![fill; n];
            let want = ((fill as u64 * n as u64) % 256) as u8;
            for start in [0u8, 0x01, 0xa5] {
                let r = std::panic::catch_unwind(|| {
                    let mut out: Vec<(&str, &str)> = Vec::new();
                    let mut c = state(start);
                    c.append(&data);
                    if c.raw_value() != start.wrapping_add(want) {
                        out.push(("accumulator", "append-long-slice"));
                    }
                    c.delete(&data);
                    if c.raw_value() != start {
                        out.push(("inverse", "append-delete-long-slice"));
                    }
                    let mut c = state(start);
                    AmlSink::vec(&mut c, &data);
                    if c.raw_value() != start.wrapping_add(want) {
                        out.push(("accumulator", "sink-vec-long-slice"));
                    }
                    out
                });
                match r {
                    Ok(o) => {
                        for (k, d) in o {
                            lv.push(vio(k, d.to_string(), format!("fill={:#x} len={} start={}", fill, n, start)));
                        }
                    }
                    Err(_) => lv.push(vio("panicked", "long-slice".into(), format!("fill={:#x} len={} start={}", fill, n, start))),
                }
                m += 3;
            }
        }
    }
    ctx.add_evals(m);
    ctx.add_subdomain("append / delete / sink vec of every slice length 0..=2100 (+4096, 65536) x 4 heavy fill bytes", m, true);
    ctx.add_nontrivial_counted(m - 12);
    lv.sort_by_key(|v| v.sig());
    lv.dedup_by_key(|v| v.sig());
    ctx.report("c17.table", json!({"case": []}), lv);

    run_pt(
        ctx,
        Pt {
            name: "c17.random",
            cases: ctx.scale(300_000, 2_000_000),
            max_len: 600,
            decode: &decode,
            oracle: &oracle,
            nontrivial: &|ops: &Vec<CkOp>| {
                ops.iter().any(|o| matches!(o, CkOp::Sub(_) | CkOp::Delete(_) | CkOp::AddThenRemove(_)))
                    && ops.iter().any(|o| matches!(o, CkOp::Append(v) | CkOp::SinkVec(v) | CkOp::Delete(v) if v.len() > 1) || matches!(o, CkOp::SinkWord(_) | CkOp::SinkDword(_) | CkOp::SinkQword(_)))
            },
            classify: &|ops: &Vec<CkOp>, l: &mut Vec<String>| {
                if ops.iter().any(|o| matches!(o, CkOp::SinkWord(_) | CkOp::SinkDword(_) | CkOp::SinkQword(_) | CkOp::SinkVec(_))) {
                    l.push("uses-sink-multibyte".into());
                }
                if ops.iter().any(|o| matches!(o, CkOp::Delete(v) if v.len() > 4)) {
                    l.push("delete>4bytes".into());
                }
                if ops.len() > 50 {
                    l.push("len>50".into());
                }
            },
            to_json: &|c: &Vec<CkOp>| serde_json::to_value(c).unwrap(),
        },
    );
}

pub fn replay(case: &serde_json::Value) -> Vec<Violation> {
    let ops: Vec<CkOp> = serde_json::from_value(case.clone()).unwrap_or_default();
    oracle(&ops)
}
