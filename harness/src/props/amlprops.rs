//! AML-object based part of C07: every kind of length-prefixed object the
//! crate emits, as a real object through the public API, with filler bodies
//! around every PkgLength width boundary.
use super::c06::{boundary_sizes, sized_object, SIZED_KINDS};
use super::c07::{pkglen_decode, shortest_incl};
use crate::aml::build::emit;
use crate::aml::term::Term;
use crate::engine::*;
use rayon::prelude::*;
use serde_json::json;

fn opcode_len(kind: usize) -> usize {
    // Device, PowerResource and Field carry the ExtOpPrefix
    if matches!(SIZED_KINDS[kind], "Device" | "PowerResource" | "Field") {
        2
    } else {
        1
    }
}

/// the named kinds with a path of `segs` segments instead of one
fn with_path(t: Term, segs: usize, rooted: bool) -> Term {
    let p = crate::props::c09::PathCase { rooted, segs: (0..segs).map(|i| format!("P{:03}", i)).collect() };
    match t {
        Term::Device(_, c) => Term::Device(p, c),
        Term::Scope(_, c) => Term::Scope(p, c),
        Term::ScopeRaw(_, c) => Term::ScopeRaw(p, c),
        Term::Method(_, a, s, c) => Term::Method(p, a, s, c),
        Term::PowerResource(_, l, o, c) => Term::PowerResource(p, l, o, c),
        Term::Field(_, a, l, u, e) => Term::Field(p, a, l, u, e),
        t => t,
    }
}

pub fn check_object(kind: usize, n: u32) -> Option<Violation> {
    check_object_path(kind, n, 1, false)
}

pub fn check_object_path(kind: usize, n: u32, segs: usize, rooted: bool) -> Option<Violation> {
    let t = with_path(sized_object(kind, n), segs, rooted);
    let bytes = std::panic::catch_unwind(std::panic::AssertUnwindSafe(|| emit(&t))).ok()?;
    let ol = opcode_len(kind);
    let name = SIZED_KINDS[kind];
    let v = |kind: &str, detail: String, info: String| Some(Violation::new("C07", &format!("pkglength/{}", name), kind, detail, info));
    match pkglen_decode(&bytes[ol..]) {
        Err(e) => v("pkglen-format", e.to_string(), format!("body={} bytes={:02x?}", n, &bytes[..bytes.len().min(8)])),
        Ok((val, used)) => {
            let to_end = bytes.len() - ol;
            let content = to_end - used;
            if val != to_end {
                v("pkglen-value", format!("width={}", used), format!("body={} decoded={} bytes-to-end={}", n, val, to_end))
            } else if Some(used) != shortest_incl(content) {
                v("pkglen-not-shortest", format!("width={} shortest={:?}", used, shortest_incl(content)), format!("body={} content={}", n, content))
            } else {
                None
            }
        }
    }
}

/// A package builder in the ways a caller can use it besides add_element-then-serialise: as a
/// sink (it implements AmlSink publicly), serialised before it is complete, or after an element that
/// panicked half-way through. `mode` 0: n raw bytes through the sink interface after k elements;
/// 1: serialised (discarded), then n more bytes through the sink, serialised again;
/// 2: serialised, then one more element of n bytes; 3: an element that writes its header and
/// then panics (address range with min > max), caught, then n bytes.
/// Whatever it holds, the PkgLength it emits must decode to the bytes that follow.
pub fn check_builder(mode: u32, k: u32, n: u32) -> Option<Violation> {
    use acpi_tables::{aml, Aml, AmlSink};
    let r = std::panic::catch_unwind(std::panic::AssertUnwindSafe(|| {
        let mut pb = if k % 2 == 0 { aml::PackageBuilder::new() } else { aml::PackageBuilder::default() };
        for i in 0..k {
            pb.add_element(&(i as u8));
        }
        let filler: Vec<u8> = (0..n).map(|i| i as u8).collect();
        match mode {
            0 => {
                if n % 2 == 0 {
                    pb.vec(&filler);
                } else {
                    for b in &filler {
                        pb.byte(*b);
                    }
                }
            }
            1 => {
                crate::aml::build::peek(&pb);
                pb.vec(&filler);
            }
            2 => {
                crate::aml::build::peek(&pb);
                pb.add_element(&aml::BufferData::new(filler.clone()));
            }
            _ => {
                let bad = aml::AddressSpace::new_io(5u16, 1u16, None);
                let _ = std::panic::catch_unwind(std::panic::AssertUnwindSafe(|| pb.add_element(&bad)));
                pb.vec(&filler);
            }
        }
        let mut out = Vec::new();
        pb.to_aml_bytes(&mut out);
        out
    }));
    let Ok(bytes) = r else { return None };
    let name = ["PackageBuilder/as-sink", "PackageBuilder/serialised-then-sink", "PackageBuilder/serialised-then-element", "PackageBuilder/after-half-written-element"][mode.min(3) as usize];
    let v = |kind: &str, detail: String, info: String| Some(Violation::new("C07", &format!("pkglength/{}", name), kind, detail, info));
    match pkglen_decode(&bytes[1..]) {
        Err(e) => v("pkglen-format", e.to_string(), format!("elements={} extra={}", k, n)),
        Ok((val, used)) => {
            let to_end = bytes.len() - 1;
            if val != to_end {
                v("pkglen-value", format!("width={}", used), format!("elements={} extra={} decoded={} bytes-to-end={}", k, n, val, to_end))
            } else if Some(used) != shortest_incl(to_end - used) {
                v("pkglen-not-shortest", format!("width={}", used), format!("elements={} extra={}", k, n))
            } else {
                None
            }
        }
    }
}

pub fn c07_objects(ctx: &Ctx) {
    // the package builder used as a sink / serialised more than once / after a failed element
    let mut bjobs: Vec<(u32, u32, u32)> = Vec::new();
    for mode in 0..4u32 {
        for k in [0u32, 1, 2, 5] {
            for n in (0u32..=70).chain(4080..=4100).chain([255, 256, 65_530, 65_536]) {
                bjobs.push((mode, k, n));
            }
        }
    }
    let bres: Vec<((u32, u32, u32), Violation)> = bjobs.par_iter().filter_map(|j| check_builder(j.0, j.1, j.2).map(|v| (*j, v))).collect();
    ctx.add_evals(bjobs.len() as u64);
    ctx.add_engine("directed:c07.builder-reuse", bjobs.len() as u64);
    ctx.add_nontrivial(bjobs.iter().map(|j| fingerprint(&("builder", j))));
    let mut seenb = std::collections::HashSet::new();
    for ((mode, k, n), v) in bres {
        if seenb.insert(v.sig()) {
            ctx.report("c07.object", json!({"case": {"builder_mode": mode, "elements": k, "extra": n}}), vec![v]);
        }
    }
    let mut jobs: Vec<(usize, u32)> = Vec::new();
    let sizes = if ctx.quick() { boundary_sizes(false) } else { (0..=4200).collect() };
    for k in 0..SIZED_KINDS.len() {
        for n in &sizes {
            jobs.push((k, *n));
        }
        // every size around 64 KiB, where the size integers embedded in some objects widen
        for n in 65_520u32..=65_545 {
            jobs.push((k, n));
        }
    }
    let big: Vec<u32> = ((1 << 20) - 12..(1 << 20) + 6).collect();
    for k in [0usize, 1, 2, 4, 5, 6, 7, 8, 9, 10, 11, 13, 14] {
        for n in &big {
            if ctx.quick() && n % 3 != 0 {
                continue;
            }
            jobs.push((k, *n));
        }
    }
    if !ctx.quick() {
        // one 2^28-neighbourhood body (256 MiB) for Scope::raw and BufferData
        for k in [6usize, 13] {
            jobs.push((k, (1 << 28) - 40));
        }
    }
    // named objects: the name's own encoding (root char, dual / multi prefix + count) is part of
    // the length
    let mut pjobs: Vec<(usize, u32, usize, bool)> = Vec::new();
    for k in [4usize, 5, 6, 7, 8, 12] {
        for segs in [1usize, 2, 3, 4, 12, 255] {
            for rooted in [false, true] {
                for n in [0u32, 1, 30, 40, 45, 50, 52, 53, 54, 55, 56, 57, 58, 59, 60, 61, 62, 63, 64, 4000, 4060, 4070, 4080, 4090] {
                    pjobs.push((k, n, segs, rooted));
                }
            }
        }
    }
    let pres: Vec<((usize, u32, usize, bool), Violation)> = pjobs.par_iter().filter_map(|j| check_object_path(j.0, j.1, j.2, j.3).map(|v| (*j, v))).collect();
    ctx.add_evals(pjobs.len() as u64);
    ctx.add_nontrivial(pjobs.iter().map(|j| fingerprint(&("objp", j))));
    let mut seenp = std::collections::HashSet::new();
    for ((k, n, segs, rooted), v) in pres {
        if seenp.insert(v.sig()) {
            ctx.report("c07.object", json!({"case": {"object": k, "body": n, "segments": segs, "rooted": rooted}}), vec![v]);
        }
    }
    let res: Vec<((usize, u32), Violation)> = jobs.par_iter().filter_map(|(k, n)| check_object(*k, *n).map(|v| ((*k, *n), v))).collect();
    ctx.add_evals(jobs.len() as u64);
    ctx.add_engine("directed:c07.objects", jobs.len() as u64);
    ctx.add_subdomain("15 kinds of length-prefixed objects x body sizes through every PkgLength width boundary (real objects, public API)", jobs.len() as u64, false);
    ctx.add_nontrivial(jobs.iter().map(|j| fingerprint(&("obj", j))));
    ctx.add_sample(json!({"object": "Method", "body": 4089, "note": "PkgLength measured against the real object's end"}));
    let mut seen = std::collections::HashSet::new();
    for ((k, n), v) in res {
        if seen.insert(v.sig()) {
            ctx.report("c07.object", json!({"case": {"object": k, "body": n}}), vec![v]);
        }
    }
    let _ = Term::Zero;
}

pub fn c07_replay(case: &serde_json::Value) -> Vec<Violation> {
    if let Some(m) = case["builder_mode"].as_u64() {
        return check_builder(m as u32, case["elements"].as_u64().unwrap_or(0) as u32, case["extra"].as_u64().unwrap_or(0) as u32).into_iter().collect();
    }
    let k = case["object"].as_u64().unwrap_or(0) as usize;
    let n = case["body"].as_u64().unwrap_or(0) as u32;
    let segs = case["segments"].as_u64().unwrap_or(1) as usize;
    let rooted = case["rooted"].as_bool().unwrap_or(false);
    check_object_path(k, n, segs, rooted).into_iter().collect()
}
