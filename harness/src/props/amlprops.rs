//! AML-tree based parts of the properties (filled in by the AML module).
use crate::engine::*;

pub fn c07_objects(_ctx: &Ctx) {}
pub fn c07_replay(_case: &serde_json::Value) -> Vec<Violation> {
    Vec::new()
}
