//! C09 — name paths encode to the specification's NameString form and back;
//! malformed paths are refused.

use super::c07::pkglen_decode;
use crate::engine::*;
use acpi_tables::{aml, Aml};
use rayon::prelude::*;
use serde::{Deserialize, Serialize};
use serde_json::json;
use std::panic::{catch_unwind, AssertUnwindSafe};

pub const LEAD: &[u8] = b"ABCDEFGHIJKLMNOPQRSTUVWXYZ_";
pub const REST: &[u8] = b"ABCDEFGHIJKLMNOPQRSTUVWXYZ_0123456789";

#[derive(Clone, Debug, Hash, PartialEq, Eq, Serialize, Deserialize)]
pub struct PathCase {
    pub rooted: bool,
    pub segs: Vec<String>,
}

impl PathCase {
    pub fn text(&self) -> String {
        format!("{}{}", if self.rooted { "\\" } else { "" }, self.segs.join("."))
    }
}

pub fn gen_seg(s: &mut Choices) -> String {
    let mut v = vec![s.pick(LEAD)];
    for _ in 0..3 {
        v.push(s.pick(REST));
    }
    String::from_utf8(v).unwrap()
}

pub fn gen_path(s: &mut Choices) -> PathCase {
    let n = match s.below(8) {
        0 => 1,
        1 => 2,
        2 => 3,
        3 => 255 - s.below(3),
        4 => 3 + s.below(40),
        _ => 1 + s.below(5),
    };
    PathCase { rooted: s.bool(), segs: (0..n).map(|_| gen_seg(s)).collect() }
}

/// ACPI 6.5 20.2.2 NameString, written from the grammar
pub fn expected(p: &PathCase) -> Vec<u8> {
    let mut out = Vec::new();
    if p.rooted {
        out.push(0x5c);
    }
    match p.segs.len() {
        1 => {}
        2 => out.push(0x2e),
        n => {
            out.push(0x2f);
            out.push(n as u8);
        }
    }
    for s in &p.segs {
        out.extend_from_slice(s.as_bytes());
    }
    out
}

/// independent NameString decoder: (rooted, parent prefixes, segments, used)
pub fn decode_namestring(b: &[u8]) -> Result<(bool, usize, Vec<[u8; 4]>, usize), &'static str> {
    let mut i = 0;
    let mut rooted = false;
    let mut parents = 0;
    if b.first() == Some(&0x5c) {
        rooted = true;
        i += 1;
    } else {
        while b.get(i) == Some(&0x5e) {
            parents += 1;
            i += 1;
        }
    }
    let count = match b.get(i) {
        Some(0x00) => {
            return Ok((rooted, parents, vec![], i + 1));
        }
        Some(0x2e) => {
            i += 1;
            2
        }
        Some(0x2f) => {
            let n = *b.get(i + 1).ok_or("truncated multi-name count")? as usize;
            i += 2;
            n
        }
        Some(_) => 1,
        None => return Err("empty name"),
    };
    let mut segs = Vec::new();
    for _ in 0..count {
        let s = b.get(i..i + 4).ok_or("truncated name segment")?;
        if !(LEAD.contains(&s[0]) && s[1..].iter().all(|c| REST.contains(c))) {
            return Err("bad name character");
        }
        segs.push([s[0], s[1], s[2], s[3]]);
        i += 4;
    }
    Ok((rooted, parents, segs, i))
}

fn vio(kind: &str, detail: String, info: String) -> Violation {
    Violation::new("C09", "Path", kind, detail, info)
}

fn shape(p: &PathCase) -> String {
    format!("segments={} rooted={}", if p.segs.len() >= 3 { "3+".to_string() } else { p.segs.len().to_string() }, p.rooted)
}

pub fn check_valid(p: &PathCase, named_objects: bool) -> Vec<Violation> {
    let text = p.text();
    let want = expected(p);
    let mut out = Vec::new();
    let got = catch_unwind(AssertUnwindSafe(|| {
        let mut v = Vec::new();
        aml::Path::new(&text).to_aml_bytes(&mut v);
        v
    }));
    let got = match got {
        Ok(g) => g,
        Err(_) => {
            out.push(vio("refused-valid", shape(p), format!("path={}", trunc(text, 80))));
            return out;
        }
    };
    if got != want {
        out.push(vio("name-encoding", shape(p), format!("path={} got={:02x?} want={:02x?}", trunc(text.clone(), 60), &got[..got.len().min(24)], &want[..want.len().min(24)])));
        return out;
    }
    match decode_namestring(&got) {
        Ok((r, 0, segs, used)) if r == p.rooted && used == got.len() && segs.len() == p.segs.len() && segs.iter().zip(&p.segs).all(|(a, b)| a == b.as_bytes()) => {}
        other => out.push(vio("name-roundtrip", shape(p), format!("path={} decoded={:?}", trunc(text.clone(), 60), other.map(|x| (x.0, x.1, x.2.len(), x.3))))),
    }
    if named_objects {
        out.extend(check_named_objects(p, &text, &want));
    }
    out
}

/// the same path as the name of every named object: the NameString must
/// appear verbatim at the position the grammar gives it
pub fn check_named_objects(p: &PathCase, text: &str, want: &[u8]) -> Vec<Violation> {
    let mut out = Vec::new();
    let pth = || aml::Path::new(text);
    let ser = |a: &dyn Aml| {
        let mut v = Vec::new();
        a.to_aml_bytes(&mut v);
        v
    };
    // (object, bytes, opcode prefix, has PkgLength)
    let objs: Vec<(&str, Vec<u8>, Vec<u8>, bool)> = vec![
        ("Name", ser(&aml::Name::new(pth(), &7u8)), vec![0x08], false),
        ("Device", ser(&aml::Device::new(pth(), vec![])), vec![0x5b, 0x82], true),
        ("Scope", ser(&aml::Scope::new(pth(), vec![])), vec![0x10], true),
        ("Scope::raw", aml::Scope::raw(pth(), vec![]), vec![0x10], true),
        ("Method", ser(&aml::Method::new(pth(), 0, false, vec![])), vec![0x14], true),
        ("OpRegion", ser(&aml::OpRegion::new(pth(), aml::OpRegionSpace::SystemIO, &0u8, &0u8)), vec![0x5b, 0x80], false),
        ("Field", ser(&aml::Field::new(pth(), aml::FieldAccessType::Any, aml::FieldLockRule::NoLock, aml::FieldUpdateRule::Preserve, vec![])), vec![0x5b, 0x81], true),
        ("Mutex", ser(&aml::Mutex::new(pth(), 0)), vec![0x5b, 0x01], false),
        ("Acquire", ser(&aml::Acquire::new(pth(), 0xffff)), vec![0x5b, 0x23], false),
        ("Release", ser(&aml::Release::new(pth())), vec![0x5b, 0x27], false),
        ("PowerResource", ser(&aml::PowerResource::new(pth(), 0, 0, vec![])), vec![0x5b, 0x84], true),
        ("MethodCall", ser(&aml::MethodCall::new(pth(), vec![])), vec![], false),
    ];
    for (name, bytes, op, has_len) in objs {
        let mut i = op.len();
        let mut ok = bytes.len() >= i && bytes[..i] == op[..];
        if ok && has_len {
            match pkglen_decode(&bytes[i..]) {
                Ok((v, used)) => {
                    if v != bytes.len() - i {
                        ok = false;
                    }
                    i += used;
                }
                Err(_) => ok = false,
            }
        }
        ok = ok && bytes.len() >= i + want.len() && &bytes[i..i + want.len()] == want;
        if !ok {
            out.push(Violation::new("C09", name, "name-encoding", shape(p), format!("path={} bytes={:02x?}", trunc(text.to_string(), 60), &bytes[..bytes.len().min(32)])));
        }
    }
    out
}

pub fn check_malformed(text: &str, class: &str) -> Vec<Violation> {
    let mut out = Vec::new();
    // Path::new, the From<&str> conversion every constructor call site uses, and a named object
    let ways: [(&str, Box<dyn Fn() -> Vec<u8>>); 3] = [
        ("Path::new", Box::new(|| {
            let mut v = Vec::new();
            aml::Path::new(text).to_aml_bytes(&mut v);
            v
        })),
        ("From<&str>", Box::new(|| {
            let p: aml::Path = text.into();
            let mut v = Vec::new();
            p.to_aml_bytes(&mut v);
            v
        })),
        ("Name::new(.into())", Box::new(|| {
            let mut v = Vec::new();
            aml::Name::new(text.into(), &1u8).to_aml_bytes(&mut v);
            v
        })),
    ];
    for (how, f) in ways.iter() {
        if let Ok(bytes) = catch_unwind(AssertUnwindSafe(|| f())) {
            out.push(vio("accepted-malformed", format!("{} via {}", class, how), format!("input={:?} emitted={:02x?}", text, &bytes[..bytes.len().min(24)])));
            break;
        }
    }
    out
}

/// malformed strings: a segment of length 0..3 or 5..8 at every position of
/// 1..5-segment paths, rooted or not
pub fn malformed_catalogue() -> Vec<(String, String)> {
    let mut out = Vec::new();
    let good = ["ABCD", "_SB_", "PCI0", "X123", "Z___"];
    for rooted in [false, true] {
        for n in 1..=5usize {
            for pos in 0..n {
                for badlen in [0usize, 1, 2, 3, 5, 6, 7, 8] {
                    let segs: Vec<String> = (0..n)
                        .map(|i| if i == pos { "ABCDEFGH"[..badlen].to_string() } else { good[i].to_string() })
                        .collect();
                    let t = format!("{}{}", if rooted { "\\" } else { "" }, segs.join("."));
                    out.push((t, format!("segment-length={}", badlen)));
                }
            }
        }
    }
    // every placement of dots in strings of the three shortest well-formed lengths: all of them
    // except the well-formed one have some segment that is not four characters long (this
    // includes several malformed segments whose lengths compensate each other)
    for total in [4usize, 9, 14] {
        for mask in 0u32..(1 << total) {
            let t: String = (0..total).map(|i| if mask & (1 << i) != 0 { '.' } else { (b'A' + (i % 26) as u8) as char }).collect();
            if t.split('.').all(|seg| seg.len() == 4) {
                continue;
            }
            out.push((t.clone(), "dot-placement".to_string()));
            if mask % 7 == 0 {
                out.push((format!("\\{}", t), "dot-placement".to_string()));
            }
        }
    }
    for t in ["", "\\", ".", "..", ".ABCD", "ABCD.", "ABCD..EFGH", "\\.ABCD", "\\ABCD.", "ABC", "ABCDE", "\\ABC", "ABCD.EFG", "ABCD.EFGHI"] {
        out.push((t.to_string(), "degenerate".to_string()));
    }
    out
}

#[derive(Clone, Debug, Hash, Serialize, Deserialize)]
pub enum Case {
    Valid(PathCase),
    Malformed(String, String),
}

pub fn oracle(c: &Case) -> Vec<Violation> {
    match c {
        Case::Valid(p) => check_valid(p, p.segs.len() <= 8),
        Case::Malformed(t, class) => check_malformed(t, class),
    }
}

pub fn decode(s: &mut Choices) -> Case {
    if s.chance(48) {
        // malformed: take a valid path and damage one segment's length
        let mut p = gen_path(s);
        p.segs.truncate(6);
        let pos = s.below(p.segs.len() as u32) as usize;
        let badlen = s.pick(&[0usize, 1, 2, 3, 5, 6, 7, 8]);
        let mut seg = p.segs[pos].clone();
        seg.push_str("WXYZ");
        p.segs[pos] = seg[..badlen].to_string();
        Case::Malformed(p.text(), format!("segment-length={}", badlen))
    } else {
        Case::Valid(gen_path(s))
    }
}

pub fn run(ctx: &Ctx) {
    ctx.set_rule("well-formed paths (optional root, 1..=255 segments over [A-Z_][A-Z0-9_]{3}) are compared with the NameString rule (root char, none/DualNamePrefix/MultiNamePrefix+count, segments verbatim), decoded back by an independent decoder, and used as the name of every named object (Name, Device, Scope, Scope::raw, Method, OpRegion, Field, Mutex, Acquire, Release, PowerResource, MethodCall). Exhaustive: all 510 (count, rooted) shapes; every segment position over its whole alphabet. Malformed strings (a segment of length 0..3 or 5..8 at every position of 1..5-segment paths, degenerate dot/root forms) must be refused. Non-trivial = path with >= 2 segments, or a malformed string; distinct by hash.");
    ctx.assume("segments that are 4 bytes but fewer characters (multi-byte UTF-8) are outside both the well-formed and the listed malformed classes and are not generated; 256+ segments are C18's subject");
    // exhaustive shapes
    let shapes: Vec<PathCase> = (1..=255usize)
        .flat_map(|n| {
            [false, true].into_iter().map(move |rooted| PathCase {
                rooted,
                segs: (0..n).map(|i| format!("{}{:03}", (b'A' + (i % 26) as u8) as char, i)).collect(),
            })
        })
        .collect();
    let mut all: Vec<Case> = shapes.into_iter().map(Case::Valid).collect();
    // every position over its alphabet
    for pos in 0..4 {
        let alpha = if pos == 0 { LEAD } else { REST };
        for &c in alpha {
            for nsegs in [1usize, 2, 3] {
                for which in 0..nsegs {
                    let mut segs: Vec<String> = (0..nsegs).map(|_| "ABCD".to_string()).collect();
                    let mut b = segs[which].clone().into_bytes();
                    b[pos] = c;
                    segs[which] = String::from_utf8(b).unwrap();
                    all.push(Case::Valid(PathCase { rooted: which % 2 == 0, segs }));
                }
            }
        }
    }
    let n_exh = all.len() as u64;
    for (t, c) in malformed_catalogue() {
        all.push(Case::Malformed(t, c));
    }
    let res: Vec<(usize, Vec<Violation>)> = all.par_iter().enumerate().map(|(i, c)| (i, guarded("C09", &oracle, c))).filter(|(_, v)| !v.is_empty()).collect();
    ctx.add_evals(all.len() as u64);
    ctx.add_subdomain("all (segment count 1..=255, rooted) shapes; every segment position over its alphabet", n_exh, true);
    ctx.add_subdomain("malformed catalogue (bad segment length at every position of 1..5-segment paths, degenerate forms)", all.len() as u64 - n_exh, true);
    ctx.add_nontrivial(all.iter().filter(|c| !matches!(c, Case::Valid(p) if p.segs.len() < 2)).map(fingerprint));
    ctx.add_engine("enumeration:c09", all.len() as u64);
    let mut seen = std::collections::HashSet::new();
    for (i, vs) in res {
        for v in vs {
            if seen.insert(v.sig()) {
                ctx.report("c09.case", json!({"case": serde_json::to_value(&all[i]).unwrap()}), vec![v]);
            }
        }
    }
    ctx.add_sample(serde_json::to_value(&all[5]).unwrap());
    ctx.add_sample(json!({"malformed": "\\_SB_.PCI.X123"}));
    run_pt(
        ctx,
        Pt {
            name: "c09.case",
            cases: ctx.scale(300_000, 1_500_000),
            max_len: 400,
            decode: &decode,
            oracle: &oracle,
            nontrivial: &|c: &Case| !matches!(c, Case::Valid(p) if p.segs.len() < 2),
            classify: &|c: &Case, l: &mut Vec<String>| match c {
                Case::Valid(p) => {
                    l.push(format!("valid:{}", shape(p)));
                    if p.segs.len() >= 250 {
                        l.push("valid:segments>=250".into());
                    }
                }
                Case::Malformed(_, c) => l.push(format!("malformed:{}", c)),
            },
            to_json: &|c: &Case| serde_json::to_value(c).unwrap(),
        },
    );
}

pub fn replay(case: &serde_json::Value) -> Vec<Violation> {
    let c: Case = serde_json::from_value(case.clone()).expect("C09 case");
    oracle(&c)
}
