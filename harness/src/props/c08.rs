//! C08 — integer constants round-trip and use the narrowest AML encoding,
//! identically whichever integer type carried the value.

use crate::engine::*;
use acpi_tables::{aml, Aml, AmlSink};
use rayon::prelude::*;
use serde_json::json;

/// allocation-free sink for the enumerations
pub struct Buf {
    pub b: [u8; 24],
    pub n: usize,
}
impl Buf {
    pub fn new() -> Self {
        Buf { b: [0; 24], n: 0 }
    }
    pub fn get(&self) -> &[u8] {
        &self.b[..self.n.min(24)]
    }
}
impl AmlSink for Buf {
    fn byte(&mut self, byte: u8) {
        if self.n < 24 {
            self.b[self.n] = byte;
        }
        self.n += 1;
    }
}

/// the specification's rule (ACPI 6.5 20.2.3 ComputationalData)
pub fn expected(v: u64, out: &mut [u8; 9]) -> usize {
    if v == 0 {
        out[0] = 0x00;
        1
    } else if v == 1 {
        out[0] = 0x01;
        1
    } else if v <= 0xff {
        out[0] = 0x0a;
        out[1] = v as u8;
        2
    } else if v <= 0xffff {
        out[0] = 0x0b;
        out[1..3].copy_from_slice(&(v as u16).to_le_bytes());
        3
    } else if v <= 0xffff_ffff {
        out[0] = 0x0c;
        out[1..5].copy_from_slice(&(v as u32).to_le_bytes());
        5
    } else {
        out[0] = 0x0e;
        out[1..9].copy_from_slice(&v.to_le_bytes());
        9
    }
}

/// independent decoder of an integer constant; returns (value, consumed)
pub fn decode_int(b: &[u8]) -> Option<(u64, usize)> {
    match *b.first()? {
        0x00 => Some((0, 1)),
        0x01 => Some((1, 1)),
        0x0a => Some((*b.get(1)? as u64, 2)),
        0x0b => Some((u16::from_le_bytes([*b.get(1)?, *b.get(2)?]) as u64, 3)),
        0x0c => {
            let s = b.get(1..5)?;
            Some((u32::from_le_bytes([s[0], s[1], s[2], s[3]]) as u64, 5))
        }
        0x0e => {
            let s = b.get(1..9)?;
            let mut a = [0u8; 8];
            a.copy_from_slice(s);
            Some((u64::from_le_bytes(a), 9))
        }
        _ => None,
    }
}

const TYPES: [&str; 5] = ["u8", "u16", "u32", "u64", "usize"];

fn emit(v: u64, ty: usize, buf: &mut Buf) -> bool {
    buf.n = 0;
    match ty {
        0 if v <= u8::MAX as u64 => (v as u8).to_aml_bytes(buf),
        1 if v <= u16::MAX as u64 => (v as u16).to_aml_bytes(buf),
        2 if v <= u32::MAX as u64 => (v as u32).to_aml_bytes(buf),
        3 => v.to_aml_bytes(buf),
        4 => (v as usize).to_aml_bytes(buf),
        _ => return false,
    }
    true
}

/// check one value through every type that can carry it
pub fn check_value(v: u64) -> Option<Violation> {
    let mut exp = [0u8; 9];
    let n = expected(v, &mut exp);
    let mut buf = Buf::new();
    for ty in 0..5 {
        if !emit(v, ty, &mut buf) {
            continue;
        }
        if buf.get() != &exp[..n] || buf.n != n {
            let class = if v <= 1 {
                "0/1"
            } else if v <= 0xff {
                "byte"
            } else if v <= 0xffff {
                "word"
            } else if v <= 0xffff_ffff {
                "dword"
            } else {
                "qword"
            };
            return Some(Violation::new(
                "C08",
                "integer",
                "int-encoding",
                format!("type={} class={}", TYPES[ty], class),
                format!("value={:#x} got={:02x?} want={:02x?}", v, buf.get(), &exp[..n]),
            ));
        }
        match decode_int(buf.get()) {
            Some((d, used)) if d == v && used == n => {}
            other => {
                return Some(Violation::new("C08", "integer", "int-roundtrip", format!("type={}", TYPES[ty]), format!("value={:#x} decoded={:?}", v, other)));
            }
        }
    }
    None
}

fn nontrivial_value(v: u64) -> bool {
    if v <= 1 {
        return false;
    }
    let w = if v <= 0xff {
        1
    } else if v <= 0xffff {
        2
    } else if v <= 0xffff_ffff {
        4
    } else {
        8
    };
    let b = v.to_le_bytes();
    let pal = (0..w / 2).all(|i| b[i] == b[w - 1 - i]);
    let near = [0xffu64, 0xffff, 0xffff_ffff].iter().any(|m| v.abs_diff(*m) <= 2 || v.abs_diff(*m + 1) <= 2);
    (!pal && w > 1) || near || w == 1
}

pub fn special_values() -> Vec<u64> {
    let mut v = vec![0u64, 1, 2];
    for m in [0xffu64, 0xffff, 0xffff_ffff, u64::MAX] {
        for d in 0..=3u64 {
            v.push(m.wrapping_sub(d));
            v.push(m.wrapping_add(d));
        }
    }
    for k in 0..64 {
        v.push(1u64 << k);
        v.push((1u64 << k).wrapping_sub(1));
        v.push((1u64 << k) | 1);
    }
    for f in [0x0101_0101_0101_0101u64, 0x8080_8080_8080_8080, 0xff00_ff00_ff00_ff00, 0x00ff_00ff_00ff_00ff, 0x0807_0605_0403_0201, 0x1122_3344_5566_7788] {
        for sh in [0, 8, 16, 24, 32, 40, 48, 56] {
            v.push(f >> sh);
        }
    }
    v.sort();
    v.dedup();
    v
}

fn splitmix(x: &mut u64) -> u64 {
    *x = x.wrapping_add(0x9e37_79b9_7f4a_7c15);
    let mut z = *x;
    z = (z ^ (z >> 30)).wrapping_mul(0xbf58_476d_1ce4_e5b9);
    z = (z ^ (z >> 27)).wrapping_mul(0x94d0_49bb_1331_11eb);
    z ^ (z >> 31)
}

/// integers embedded as operands of larger objects must use the same rule
fn embedded(v: u64) -> Option<Violation> {
    let mut exp = [0u8; 9];
    let n = expected(v, &mut exp);
    let mut bytes = Vec::new();
    aml::Name::new("_INT".into(), &v).to_aml_bytes(&mut bytes);
    if bytes.len() != 5 + n || bytes[5..] != exp[..n] {
        return Some(Violation::new("C08", "integer", "int-encoding", "embedded:Name".into(), format!("value={:#x} got={:02x?}", v, bytes)));
    }
    bytes.clear();
    aml::Package::new(vec![&v, &(v as usize)]).to_aml_bytes(&mut bytes);
    // 12 pkglen count e1 e2
    let tail = &bytes[bytes.len().saturating_sub(2 * n)..];
    if tail.len() != 2 * n || tail[..n] != exp[..n] || tail[n..] != exp[..n] {
        return Some(Violation::new("C08", "integer", "int-encoding", "embedded:Package".into(), format!("value={:#x} got={:02x?}", v, bytes)));
    }
    // the same two elements added one by one: the integers are written into the builder, which is a
    // sink of its own
    bytes.clear();
    let mut pb = aml::PackageBuilder::new();
    pb.add_element(&v);
    pb.add_element(&(v as usize));
    pb.to_aml_bytes(&mut bytes);
    let tail = &bytes[bytes.len().saturating_sub(2 * n)..];
    if bytes.len() < 3 + 2 * n || tail[..n] != exp[..n] || tail[n..] != exp[..n] {
        return Some(Violation::new("C08", "integer", "int-encoding", "embedded:PackageBuilder".into(), format!("value={:#x} got={:02x?}", v, bytes)));
    }
    // ... and written straight into the generic table, the crate's other sink
    let mut t = acpi_tables::sdt::Sdt::new(*b"TEST", 36, 1, *b"OEMIDX", *b"TABLEID0", 1);
    v.to_aml_bytes(&mut t);
    (v as usize).to_aml_bytes(&mut t);
    let img = t.as_slice();
    if img.len() != 36 + 2 * n || img[36..36 + n] != exp[..n] || img[36 + n..] != exp[..n] {
        return Some(Violation::new("C08", "integer", "int-encoding", "via-sink:Sdt".into(), format!("value={:#x} got={:02x?}", v, &img[36..])));
    }
    bytes.clear();
    aml::OpRegion::new("REGN".into(), aml::OpRegionSpace::SystemMemory, &v, &(v as usize)).to_aml_bytes(&mut bytes);
    let tail = bytes.get(7..).unwrap_or(&[]);
    if tail.len() != 2 * n || tail[..n] != exp[..n] || tail[n..] != exp[..n] {
        return Some(Violation::new("C08", "integer", "int-encoding", "embedded:OpRegion".into(), format!("value={:#x} got={:02x?}", v, bytes)));
    }
    None
}

pub fn run(ctx: &Ctx) {
    ctx.set_rule("every value is submitted through every integer type that can carry it (u8,u16,u32,u64,usize) and compared with the specification rule (00 / 01 / 0A b / 0B w / 0C d / 0E q, little endian) and decoded back by an independent decoder. Exhaustive: all u8, all u16 (quick and thorough), all u32 (thorough); sampled: width boundaries +-3, single bits, byte fills, random u32/u64; embedded operands (Name, Package, PackageBuilder, OpRegion, buffer sizes). Non-trivial = value not in {0,1} whose little-endian bytes are not a palindrome, or within +-2 of a width boundary; distinct = distinct values. Integers are also written into the package builder (add_element) and into the generic table, the crate's own two sinks.");
    let mut evals = 0u64;
    let mut nontriv: u64 = 0;
    let mut vs: Vec<(u64, Violation)> = Vec::new();
    // exhaustive u8/u16
    for v in 0..=0xffffu64 {
        evals += 1;
        if nontrivial_value(v) {
            nontriv += 1;
        }
        if let Some(x) = check_value(v) {
            vs.push((v, x));
        }
    }
    ctx.add_subdomain("all u8 and u16 values through every wider type", 65536, true);
    for v in special_values() {
        evals += 1;
        if v > 0xffff_ffff && nontrivial_value(v) {
            nontriv += 1;
        }
        if let Some(x) = check_value(v) {
            vs.push((v, x));
        }
        if let Some(x) = embedded(v) {
            vs.push((v, x));
        }
    }
    // An integer the crate derives itself and hands to the encoder: the size of a data buffer.
    // (EISA ids are NOT judged here: C16 only asks for an integer constant whose 32-bit value
    // decompresses to the identifier, and ASL's EisaId() is a DWordConst, so a crate that always
    // emitted 0C + four bytes would keep both properties. An earlier version of this check demanded
    // the narrowest form for them and was a false alarm on such a crate -- DESIGN 12.4.)
    for n in [0usize, 1, 2, 255, 256, 257, 65_535, 65_536, 65_537, 65_791, 70_000] {
        let mut e2 = [0u8; 9];
        let n2 = expected(n as u64, &mut e2);
        let mut b = Vec::new();
        aml::BufferData::new(vec![0x5a; n]).to_aml_bytes(&mut b);
        evals += 1;
        let (_, used) = crate::props::c07::pkglen_decode(&b[1..]).unwrap_or((0, 1));
        let size = &b[1 + used..b.len() - n];
        if size != &e2[..n2] {
            vs.push((n as u64, Violation::new("C08", "integer", "int-encoding", "embedded:BufferData-size".into(), format!("len={} got={:02x?} want={:02x?}", n, size, &e2[..n2]))));
        }
    }
    ctx.add_sample(json!({"value": "0x1122334455667788", "expect": "0e 88 77 66 55 44 33 22 11"}));
    ctx.add_sample(json!({"value": 256, "expect": "0b 00 01"}));
    // all u32 (thorough) / random u32 (quick)
    let found: Vec<(u64, Violation)> = if ctx.quick() {
        let n = ctx.scale(2_000_000, 0);
        let seed = ctx.seed;
        let res: Vec<(u64, Violation)> = (0..16u64)
            .into_par_iter()
            .flat_map_iter(|t| {
                let mut x = mix(seed, "c08.u32", t);
                let mut out = Vec::new();
                let mut seen = std::collections::HashSet::new();
                for _ in 0..n / 16 {
                    let v = splitmix(&mut x) & 0xffff_ffff;
                    if seen.len() < 300_000 && nontrivial_value(v) {
                        seen.insert(v);
                    }
                    if let Some(e) = check_value(v) {
                        if out.len() < 4 {
                            out.push((v, e));
                        }
                    }
                }
                ctx.add_nontrivial(seen.into_iter().map(|v| fingerprint(&v)));
                out
            })
            .collect();
        evals += n;
        ctx.add_subdomain("random u32", n, false);
        res
    } else {
        let res: Vec<(u64, Violation)> = (0..1u64 << 16)
            .into_par_iter()
            .flat_map_iter(|hi| {
                let mut out = Vec::new();
                for lo in 0..1u64 << 16 {
                    let v = (hi << 16) | lo;
                    if let Some(e) = check_value(v) {
                        if out.len() < 2 {
                            out.push((v, e));
                        }
                    }
                }
                out
            })
            .collect();
        evals += 1u64 << 32;
        // values above 0xffff: distinct by enumeration; dword palindromes (2^16 of them) are the trivial ones
        nontriv += (1u64 << 32) - (1 << 16) - (1 << 16);
        ctx.add_subdomain("all u32 values through u32, u64 and usize", 1u64 << 32, true);
        res
    };
    vs.extend(found);
    // random u64
    {
        let n = ctx.scale(2_000_000, 40_000_000);
        let seed = ctx.seed;
        let res: Vec<(u64, Violation)> = (0..16u64)
            .into_par_iter()
            .flat_map_iter(|t| {
                let mut x = mix(seed, "c08.u64", t);
                let mut out = Vec::new();
                let mut seen = std::collections::HashSet::new();
                for i in 0..n / 16 {
                    let r = splitmix(&mut x);
                    // vary the magnitude so that every width class is hit
                    let v = r >> (i % 64);
                    if seen.len() < 300_000 && v > 0xffff_ffff && nontrivial_value(v) {
                        seen.insert(v);
                    }
                    if let Some(e) = check_value(v) {
                        if out.len() < 4 {
                            out.push((v, e));
                        }
                    }
                }
                ctx.add_nontrivial(seen.into_iter().map(|v| fingerprint(&v)));
                out
            })
            .collect();
        evals += n;
        ctx.add_subdomain("random u64 of every magnitude", n, false);
        vs.extend(res);
    }
    ctx.add_evals(evals);
    // u8/u16 (and, thorough, u32) are enumerated: every value once, counted by the predicate
    ctx.add_nontrivial_counted(nontriv);
    ctx.add_engine("enumeration:c08", evals);
    vs.sort_by_key(|(v, x)| (x.sig(), *v));
    vs.dedup_by_key(|(_, x)| x.sig());
    for (v, x) in vs {
        ctx.report("c08.value", json!({"case": v}), vec![x]);
    }
}

pub fn replay(case: &serde_json::Value) -> Vec<Violation> {
    let v = case.as_u64().unwrap_or(0);
    let mut out = Vec::new();
    out.extend(check_value(v));
    out.extend(embedded(v));
    out
}
