//! C05 — handles returned by add operations are true offsets of the node they name.

use super::common::*;
use crate::engine::*;
use crate::tables::drive::*;
use crate::tables::gen::*;
use crate::tables::types::*;
use crate::tables::walk::*;

pub const KINDS: &[Kind] = &HANDLE_KINDS;

fn expect_type(h: HKind) -> u32 {
    match h {
        HKind::Cache => 1,
        HKind::Proc => 0,
        HKind::Isa => 0,
        HKind::Cmo => 1,
        HKind::Iommu => 0,
        HKind::Viot => 3, // or 4
    }
}

pub fn oracle(p: &Program) -> Vec<Violation> {
    let flat = flatten(p);
    let name = p.kind.name();
    let mut out: Vec<Violation> = Vec::new();
    let total = flat.len();
    // ops refused by the crate add no node (only the >64 KiB VIOT histories have any)
    let mut refused: Vec<bool> = vec![false; flat.len()];
    drive(p, &flat, &mut |o: &Obs| {
        if o.step > 0 && o.refused {
            refused[o.step - 1] = true;
        }
        if !out.is_empty() {
            return;
        }
        if !(total <= 64 || o.step == total || o.step % 41 == 0) {
            return;
        }
        let w = walk(p.kind, o.image);
        // entry index of op i = number of accepted ops before it
        let mut eidx: Vec<usize> = Vec::with_capacity(o.step);
        let mut acc = 0usize;
        for r in refused[..o.step].iter() {
            eidx.push(acc);
            if !*r {
                acc += 1;
            }
        }
        if !w.issues.is_empty() || w.entries.len() != acc {
            // framing is C03's subject; C05 needs a walkable image to judge offsets
            let i = w.issues.first();
            out.push(Violation::new(
                "C05",
                name,
                "unwalkable",
                i.map_or("entry count".to_string(), |i| format!("{} {}", i.kind, i.detail)),
                format!("step={} {}", o.step, i.map_or(String::new(), |i| i.info.clone())),
            ));
            return;
        }
        let r32 = |off: usize| u32::from_le_bytes([o.image[off], o.image[off + 1], o.image[off + 2], o.image[off + 3]]);
        let r16 = |off: usize| u16::from_le_bytes([o.image[off], o.image[off + 1]]) as u32;
        // per handle kind: op index of the k-th handle-producing op of the program (a refused add
        // keeps its number, it just has no handle)
        struct HOp {
            op: usize,
        }
        let of_kind = |k: HKind| -> Vec<HOp> {
            flat[..o.step]
                .iter()
                .enumerate()
                .filter(|(_, op)| match (k, op) {
                    (HKind::Cache, Op::PpttCache { .. }) | (HKind::Proc, Op::PpttProc { .. }) | (HKind::Isa, Op::RhctIsa(..)) | (HKind::Cmo, Op::RhctCmo(..)) | (HKind::Iommu, Op::RimtIommu { .. }) => true,
                    (HKind::Viot, Op::ViotPciIommu(..)) | (HKind::Viot, Op::ViotMmioIommu(..)) => true,
                    _ => false,
                })
                .map(|(i, _)| HOp { op: i })
                .collect()
        };
        for h in o.handles.iter() {
            let e = &w.entries[eidx[h.op]];
            let ty_ok = if h.kind == HKind::Viot { e.ty == 3 || e.ty == 4 } else { e.ty == expect_type(h.kind) };
            if h.value as usize != e.offset || !ty_ok {
                out.push(Violation::new(
                    "C05",
                    &format!("{}/{}", name, flat[h.op].label()),
                    "handle",
                    if h.value as usize != e.offset { "returned != node offset".into() } else { "node type".to_string() },
                    format!("step={} node-index={} returned={} actual={} type={:#x}", o.step, h.op, h.value, e.offset, e.ty),
                ));
                return;
            }
        }
        // every reference field resolves to the node its handle was returned for
        for (i, op) in flat[..o.step].iter().enumerate() {
            if refused[i] {
                continue;
            }
            let e = &w.entries[eidx[i]];
            let mut refs: Vec<(&'static str, u32, usize)> = Vec::new(); // (field, found value, target op index)
            match op {
                Op::PpttCache { sets } => {
                    // the last next_level call wins
                    if let Some(CacheSet::Next(k)) = sets.iter().rev().find(|s| matches!(s, CacheSet::Next(_))) {
                        refs.push(("next-level-cache", r32(e.offset + 8), of_kind(HKind::Cache)[*k as usize].op));
                    }
                }
                Op::PpttProc { parent, res, .. } => {
                    if let Some(k) = parent {
                        refs.push(("parent", r32(e.offset + 8), of_kind(HKind::Proc)[*k as usize].op));
                    }
                    for (j, k) in res.iter().enumerate() {
                        refs.push(("private-resource", r32(e.offset + 20 + 4 * j), of_kind(HKind::Cache)[*k as usize].op));
                    }
                }
                Op::RhctHart { isa, cmos, .. } => {
                    refs.push(("hart-info-offset[isa]", r32(e.offset + 12), of_kind(HKind::Isa)[*isa as usize].op));
                    for (j, k) in cmos.iter().enumerate() {
                        refs.push(("hart-info-offset[cmo]", r32(e.offset + 16 + 4 * j), of_kind(HKind::Cmo)[*k as usize].op));
                    }
                }
                Op::RimtRc { maps: Some(m), .. } => {
                    for (j, x) in m.iter().enumerate() {
                        refs.push(("id-mapping-iommu-offset", r32(e.offset + 16 + 20 * j + 12), of_kind(HKind::Iommu)[x.iommu as usize].op));
                    }
                }
                Op::RimtPlat { maps: Some(m), name_len, .. } => {
                    let mo = 12 + *name_len as usize + 1;
                    for (j, x) in m.iter().enumerate() {
                        refs.push(("id-mapping-iommu-offset", r32(e.offset + mo + 20 * j + 12), of_kind(HKind::Iommu)[x.iommu as usize].op));
                    }
                }
                Op::ViotPciRange { h, .. } | Op::ViotMmioEp { h, .. } => {
                    refs.push(("output-node", r16(e.offset + 16), of_kind(HKind::Viot)[*h as usize].op));
                }
                _ => {}
            }
            for (field, found, target) in refs {
                if refused[target] {
                    continue; // cannot happen: the referencing op would have been refused too
                }
                let want = w.entries[eidx[target]].offset as u32;
                if found != want {
                    out.push(Violation::new(
                        "C05",
                        &format!("{}/{}", name, op.label()),
                        "dangling-reference",
                        field.to_string(),
                        format!("step={} node-index={} field-value={} target-node-index={} target-offset={}", o.step, i, found, target, want),
                    ));
                    return;
                }
            }
        }
    });
    out
}

/// non-trivial: a handle is used after a node of a different kind or size was
/// added between its creation and its use
fn nontrivial(p: &Program) -> bool {
    let flat = flatten(p);
    let mut created: Vec<(HKind, usize)> = Vec::new();
    let size_class = |o: &Op| format!("{}:{:?}", o.label(), crate::tables::walk::expected_entry(o).map(|x| x.1));
    for (i, op) in flat.iter().enumerate() {
        let uses: Vec<usize> = match op {
            Op::PpttCache { sets } => sets.iter().filter_map(|s| if let CacheSet::Next(k) = s { created.iter().filter(|c| c.0 == HKind::Cache).nth(*k as usize).map(|c| c.1) } else { None }).collect(),
            Op::PpttProc { parent, res, .. } => {
                let mut v: Vec<usize> = res.iter().filter_map(|k| created.iter().filter(|c| c.0 == HKind::Cache).nth(*k as usize).map(|c| c.1)).collect();
                if let Some(k) = parent {
                    v.extend(created.iter().filter(|c| c.0 == HKind::Proc).nth(*k as usize).map(|c| c.1));
                }
                v
            }
            Op::RhctHart { isa, cmos, .. } => {
                let mut v: Vec<usize> = cmos.iter().filter_map(|k| created.iter().filter(|c| c.0 == HKind::Cmo).nth(*k as usize).map(|c| c.1)).collect();
                v.extend(created.iter().filter(|c| c.0 == HKind::Isa).nth(*isa as usize).map(|c| c.1));
                v
            }
            Op::RimtRc { maps: Some(m), .. } | Op::RimtPlat { maps: Some(m), .. } => m.iter().filter_map(|x| created.iter().filter(|c| c.0 == HKind::Iommu).nth(x.iommu as usize).map(|c| c.1)).collect(),
            Op::ViotPciRange { h, .. } | Op::ViotMmioEp { h, .. } => created.iter().filter(|c| c.0 == HKind::Viot).nth(*h as usize).map(|c| c.1).into_iter().collect(),
            _ => vec![],
        };
        for u in uses {
            if flat[u + 1..i].iter().any(|x| size_class(x) != size_class(&flat[u])) {
                return true;
            }
        }
        match op {
            Op::PpttCache { .. } => created.push((HKind::Cache, i)),
            Op::PpttProc { .. } => created.push((HKind::Proc, i)),
            Op::RhctIsa(..) => created.push((HKind::Isa, i)),
            Op::RhctCmo(..) => created.push((HKind::Cmo, i)),
            Op::RimtIommu { .. } => created.push((HKind::Iommu, i)),
            Op::ViotPciIommu(..) | Op::ViotMmioIommu(..) => created.push((HKind::Viot, i)),
            _ => {}
        }
    }
    false
}

pub fn run(ctx: &Ctx) {
    ctx.set_rule("generated interleavings of all node kinds of PPTT, RHCT, RIMT and VIOT (handle-returning or not, fixed or variable size: ISA strings of both parities, processors with 0..58 resources, IOMMUs with 0..30 wires, platform names of any length), with later uses of any earlier handle; every returned handle (read through Debug for PPTT/RHCT, through the reference field a probe object built from it carries for RIMT/VIOT) must equal the offset at which the independent walker finds that very node (right type), and every reference field in the image must equal the offset of the node its handle was returned for; on every prefix of short histories. Non-trivial = a handle used after a node of a different kind or size was added between its creation and its use; distinct by hash.");
    ctx.assume("VIOT images stay below 64 KiB (16-bit handles); beyond that is C18's subject");
    let seed = ctx.seed;
    let mut directed = directed_programs(KINDS, seed);
    // VIOT beyond 64 KiB: a node whose offset no longer fits the 16-bit handle must be
    // refused or named correctly -- never a wrapped handle
    for n in [2_728u32, 2_729, 2_730, 2_731, 4_000] {
        let b = Bdf { seg: 1, bus: 2, dev: 3, func: 4 };
        let mut p = plain_program(Kind::Viot, seed);
        p.ops = vec![
            Op::ViotPciIommu(b),
            Op::Repeat(Box::new(Op::ViotPciRange { first: b, last: b, h: 0 }), n),
            Op::ViotMmioIommu(0x1000),
            Op::ViotMmioEp { id: 1, base: 2, h: 1 },
            Op::ViotPciRange { first: b, last: b, h: 1 },
        ];
        directed.push(p);
    }
    // nodes too large for their 16-bit length: the add must be refused, or every later handle
    // must still be a true offset (never an offset computed from a wrapped length)
    for n in [65_524u32, 65_525, 65_526, 65_527, 65_534, 65_535, 65_536, 65_537, 70_000, 131_072] {
        let mut p = plain_program(Kind::Rhct, seed);
        p.ops = vec![Op::RhctIsa(n), Op::RhctIsa(5), Op::RhctCmo(1, 2, 3), Op::RhctHart { uid: 7, isa: 1, cmos: vec![0] }, Op::RhctIsa(6), Op::RhctHart { uid: 8, isa: 2, cmos: vec![] }];
        directed.push(p);
        let mut p = plain_program(Kind::Rimt, seed);
        let io = Op::RimtIommu { id: 1, base: Some(0x1000), pci: None, prox: None, wires: None };
        let map = |i: u32| Some(vec![IdMap { src: 1, dst: 2, n: 3, iommu: i, ats: false, pri: true, rciep: false }]);
        p.ops = vec![io.clone(), Op::RimtPlat { id: 2, name_len: n, maps: map(0) }, io.clone(), Op::RimtRc { id: 3, seg: 0, ats: true, pri: false, maps: map(1) }];
        directed.push(p);
    }
    table_list(ctx, "c05.directed", directed, &oracle, &nontrivial);
    table_pt(ctx, "c05.random", KINDS, ctx.scale(8_000, 400_000), &oracle, &nontrivial);
}

pub fn replay(case: &serde_json::Value) -> Vec<Violation> {
    let p: Program = serde_json::from_value(case.clone()).expect("C05 case");
    oracle(&p)
}
