//! C12 — locality matrices hold, per cell, the last value assigned to that cell.

use super::common::*;
use crate::engine::*;
use crate::tables::drive::ser;
use acpi_tables::{hmat, slit};
use rayon::prelude::*;
use serde::{Deserialize, Serialize};
use serde_json::json;
use std::panic::{catch_unwind, AssertUnwindSafe};

#[derive(Clone, Debug, Hash, Serialize, Deserialize)]
pub enum Case {
    /// N, assignments (a, b, v)
    Slit(u32, Vec<(u32, u32, u8)>),
    /// initiators, targets, assignments (i, j, v)
    Sllbi(u32, u32, Vec<(u32, u32, u16)>),
}

fn v(subject: &str, kind: &str, detail: String, info: String) -> Violation {
    Violation::new("C12", subject, kind, detail, info)
}

fn shape_class(i: u32, t: u32) -> &'static str {
    if i == t {
        "square"
    } else if i == 1 || t == 1 {
        "single-row-or-column"
    } else if i > t {
        "more-initiators-than-targets"
    } else {
        "more-targets-than-initiators"
    }
}

pub fn oracle(c: &Case) -> Vec<Violation> {
    let mut out = Vec::new();
    match c {
        Case::Slit(n, ops) => {
            let n_ = *n as usize;
            let mut t = slit::SLIT::new(*b"OEMIDX", *b"TABLEID0", 7, *n);
            let mut model = vec![10u8; n_ * n_];
            let check = |t: &slit::SLIT, model: &[u8], step: usize, what: &str, out: &mut Vec<Violation>| {
                let img = ser(t);
                if img.len() != 44 + model.len() {
                    out.push(v("SLIT", "matrix-cell", "image size".into(), format!("step={} len={}", step, img.len())));
                    return;
                }
                if &img[44..] != model {
                    let cell = (0..model.len()).find(|i| img[44 + i] != model[*i]).unwrap();
                    out.push(v("SLIT", "matrix-cell", format!("after:{}", what), format!("N={} step={} cell=({},{}) found={} expected={}", n_, step, cell / n_, cell % n_, img[44 + cell], model[cell])));
                }
                if sum8(&img) != 0 {
                    out.push(v("SLIT", "checksum", format!("after:{}", what), format!("N={} step={} sum={}", n_, step, sum8(&img))));
                }
            };
            check(&t, &model, 0, "ctor", &mut out);
            for (k, (a, b, val)) in ops.iter().enumerate() {
                if !out.is_empty() {
                    break;
                }
                let what = if a == b { "diagonal" } else { "off-diagonal" };
                let r = catch_unwind(AssertUnwindSafe(|| t.set_distance(*a as usize, *b as usize, *val)));
                if *a >= *n || *b >= *n {
                    // a domain outside the matrix: the contract does not say whether it is refused.
                    // Refused => no cell may change and the checksum stays valid; accepted => undefined.
                    if r.is_ok() {
                        break;
                    }
                    check(&t, &model, k + 1, "refused-out-of-range", &mut out);
                    continue;
                }
                if r.is_err() {
                    out.push(v("SLIT", "refused-valid", format!("in-range pair {}", what), format!("N={} step={} pair=({},{})", n_, k + 1, a, b)));
                    break;
                }
                model[*a as usize * n_ + *b as usize] = *val;
                model[*b as usize * n_ + *a as usize] = *val;
                check(&t, &model, k + 1, what, &mut out);
            }
        }
        Case::Sllbi(ni, nt, ops) => {
            let (i_, t_) = (*ni as usize, *nt as usize);
            let mut s = hmat::SystemLocality::new(hmat::LocalityType::Memory, hmat::DataType::ReadLatency, hmat::MinTransferSize::Size64b, 1000, i_, t_);
            let mut model = vec![0xffffu16; i_ * t_];
            let e0 = 32 + 4 * i_ + 4 * t_;
            let sc = shape_class(*ni, *nt);
            let check = |s: &hmat::SystemLocality, model: &[u16], step: usize, out: &mut Vec<Violation>| {
                let b = ser(s);
                if b.len() != e0 + 2 * model.len() {
                    out.push(v("HMAT/SLLBI", "matrix-cell", format!("structure size shape:{}", sc), format!("shape={}x{} step={} len={}", i_, t_, step, b.len())));
                    return;
                }
                for (c, m) in model.iter().enumerate() {
                    let got = u16::from_le_bytes([b[e0 + 2 * c], b[e0 + 2 * c + 1]]);
                    if got != *m {
                        out.push(v("HMAT/SLLBI", "matrix-cell", format!("shape:{}", sc), format!("shape={}x{} step={} cell=({},{}) found={} expected={}", i_, t_, step, c / t_, c % t_, got, m)));
                        return;
                    }
                }
            };
            check(&s, &model, 0, &mut out);
            for (k, (i, j, val)) in ops.iter().enumerate() {
                if !out.is_empty() {
                    break;
                }
                let r = catch_unwind(AssertUnwindSafe(|| s.set_entry_value(*i as usize, *j as usize, *val)));
                if *i >= *ni || *j >= *nt {
                    // outside the matrix: refused => no trace; accepted => undefined, stop judging
                    if r.is_ok() {
                        return out;
                    }
                    check(&s, &model, k + 1, &mut out);
                    continue;
                }
                if r.is_err() {
                    out.push(v("HMAT/SLLBI", "refused-valid", format!("in-range pair shape:{}", sc), format!("shape={}x{} step={} pair=({},{})", i_, t_, k + 1, i, j)));
                    break;
                }
                model[*i as usize * t_ + *j as usize] = *val;
                check(&s, &model, k + 1, &mut out);
            }
            if out.is_empty() {
                // the table checksum stays valid once the structure is added
                let mut h = hmat::HMAT::new(*b"OEMIDX", *b"TABLEID0", 7);
                h.add_system_locality(s);
                let img = ser(&h);
                if sum8(&img) != 0 {
                    out.push(v("HMAT/SLLBI", "checksum", "after add_system_locality".into(), format!("shape={}x{}", i_, t_)));
                }
                for (c, m) in model.iter().enumerate() {
                    let o = 40 + e0 + 2 * c;
                    if u16::from_le_bytes([img[o], img[o + 1]]) != *m {
                        out.push(v("HMAT/SLLBI", "matrix-cell", format!("in-table shape:{}", sc), format!("shape={}x{} cell={}", i_, t_, c)));
                        break;
                    }
                }
            }
        }
    }
    out
}

pub fn decode(s: &mut Choices) -> Case {
    if s.bool() {
        let n = match s.below(6) {
            0 => 1,
            1 => 2,
            2 => 9 + s.below(56),
            _ => 1 + s.below(8),
        };
        let mut ops = Vec::new();
        while !s.exhausted() && ops.len() < 200 {
            let a = s.below(n);
            let b = match s.below(5) {
                0 => a,
                _ => s.below(n),
            };
            // repeat an earlier pair or its mirror now and then
            let (a, b) = if !ops.is_empty() && s.chance(40) {
                let (pa, pb, _): (u32, u32, u8) = ops[s.below(ops.len() as u32) as usize];
                if s.bool() {
                    (pb, pa)
                } else {
                    (pa, pb)
                }
            } else {
                (a, b)
            };
            let (a, b) = match s.below(40) {
                0 => (n + s.below(3), b),
                1 => (a, n + s.below(3)),
                _ => (a, b),
            };
            ops.push((a, b, s.u8()));
        }
        Case::Slit(n, ops)
    } else {
        let (ni, nt) = match s.below(7) {
            0 => (1, 1 + s.below(8)),
            1 => (1 + s.below(8), 1),
            2 => (7 + s.below(26), 7 + s.below(26)),
            _ => (1 + s.below(6), 1 + s.below(6)),
        };
        let mut ops = Vec::new();
        while !s.exhausted() && ops.len() < 200 {
            let (i, j) = if !ops.is_empty() && s.chance(40) {
                let (pi, pj, _): (u32, u32, u16) = ops[s.below(ops.len() as u32) as usize];
                (pi, pj)
            } else {
                match s.below(4) {
                    0 => (ni - 1, nt - 1),
                    1 => (s.below(ni), nt - 1),
                    _ => (s.below(ni), s.below(nt)),
                }
            };
            let (i, j) = match s.below(40) {
                0 => (ni + s.below(3), j),
                1 => (i, nt + s.below(3)),
                _ => (i, j),
            };
            ops.push((i, j, s.u16()));
        }
        Case::Sllbi(ni, nt, ops)
    }
}

fn nontrivial(c: &Case) -> bool {
    match c {
        Case::Slit(_, ops) => {
            ops.iter().any(|(a, b, _)| a == b) || {
                let mut seen = std::collections::HashSet::new();
                ops.iter().any(|(a, b, _)| !seen.insert((*a.min(b), *a.max(b))))
            }
        }
        Case::Sllbi(i, t, ops) => {
            i != t || {
                let mut seen = std::collections::HashSet::new();
                ops.iter().any(|(a, b, _)| !seen.insert((*a, *b)))
            }
        }
    }
}

/// all assignment sequences of length <= max_len over `cells` x `vals`
fn sequences<T: Clone>(alphabet: &[T], max_len: usize) -> Vec<Vec<T>> {
    let mut out: Vec<Vec<T>> = vec![vec![]];
    let mut frontier: Vec<Vec<T>> = vec![vec![]];
    for _ in 0..max_len {
        let mut next = Vec::new();
        for s in &frontier {
            for a in alphabet {
                let mut t = s.clone();
                t.push(a.clone());
                next.push(t);
            }
        }
        out.extend(next.iter().cloned());
        frontier = next;
    }
    out
}

pub fn run(ctx: &Ctx) {
    ctx.set_rule("SLIT (N = 0..8 exhaustively for short sequences, up to 64 randomly) and HMAT latency/bandwidth structures (shapes up to 6x6 exhaustively for short sequences, 1xn, nx1, non-square, up to 32x32 randomly): every sequence of cell assignments is applied to the real object and to a reference map (SLIT: cell and mirror hold the last value for the unordered pair, 10 if never assigned; SLLBI: row-major cell i*targets+j holds the last value, 0xFFFF if never assigned); the matrix region of the serialised bytes is compared after every assignment, every in-range pair must be accepted, and the table checksum must stay valid. Exhaustive: all sequences of <= 3 assignments over all in-range pairs x 3 values for N <= 3 / shapes with <= 6 cells, <= 2 assignments for N = 4 / shapes with <= 12 cells. Non-trivial = sequence with a repeated cell, a diagonal cell, or a non-square shape; distinct by hash. Assignments with an index outside the matrix are attempted too (exhaustively for N <= 6 and six SLLBI shapes, rarely in random sequences): the contract leaves their outcome open, so a refused one must leave every cell and the checksum as they were, and an accepted one ends the judged part of the sequence.");
    let vals8 = [0u8, 10, 0xff];
    let vals16 = [0u16, 0x1234, 0xffff];
    let mut cases: Vec<Case> = Vec::new();
    for n in 0..=8u32 {
        cases.push(Case::Slit(n, vec![]));
        let mut alpha = Vec::new();
        for a in 0..n {
            for b in 0..n {
                for v in vals8 {
                    alpha.push((a, b, v));
                }
            }
        }
        let maxlen = if n <= 3 { 3 } else if n == 4 { 2 } else { 1 };

        for s in sequences(&alpha, maxlen) {
            if !s.is_empty() {
                cases.push(Case::Slit(n, s));
            }
        }
    }
    for n in 1..=6u32 {
        // an assignment to a domain outside the matrix between two ordinary ones
        for a in 0..2 * n + 2 {
            for b in 0..2 * n + 2 {
                if a >= n || b >= n {
                    cases.push(Case::Slit(n, vec![(0, n - 1, 0x21), (a, b, 77), (n - 1, 0, 0x33)]));
                }
            }
        }
    }
    for (i, t) in [(1u32, 1u32), (1, 3), (3, 1), (2, 3), (3, 2), (4, 4)] {
        for a in 0..i + 2 {
            for b in 0..t * i + 2 {
                if a >= i || b >= t {
                    cases.push(Case::Sllbi(i, t, vec![(0, t - 1, 0x21), (a, b, 77), (i - 1, 0, 0x33)]));
                }
            }
        }
    }
    for n in [255u32, 256, 257, 300] {
        cases.push(Case::Slit(n, vec![]));
        cases.push(Case::Slit(n, vec![(0, n - 1, 0x21), (n - 1, n - 1, 0x42), (n - 1, 0, 0x33), (n / 2, n / 2 + 1, 0xff), (0, 0, 11)]));
    }
    for i in 1..=6u32 {
        for t in 1..=6u32 {
            cases.push(Case::Sllbi(i, t, vec![]));
            let mut alpha = Vec::new();
            for a in 0..i {
                for b in 0..t {
                    for v in vals16 {
                        alpha.push((a, b, v));
                    }
                }
            }
            let cells = i * t;
            let maxlen = if cells <= 6 { 3 } else if cells <= 12 { 2 } else { 1 };

            for s in sequences(&alpha, maxlen) {
                if !s.is_empty() {
                    cases.push(Case::Sllbi(i, t, s));
                }
            }
        }
    }
    let n = cases.len() as u64;
    let res: Vec<(usize, Vec<Violation>)> = cases.par_iter().enumerate().map(|(i, c)| (i, guarded("C12", &oracle, c))).filter(|(_, v)| !v.is_empty()).collect();
    ctx.add_evals(n);
    ctx.add_subdomain("all short assignment sequences over all in-range pairs x 3 values (SLIT N<=8, SLLBI shapes <= 6x6)", n, true);
    ctx.add_engine("enumeration:c12", n);
    ctx.add_nontrivial_counted(cases.iter().filter(|c| nontrivial(c)).count() as u64);
    ctx.add_sample(serde_json::to_value(&cases[cases.len() / 2]).unwrap());
    let mut seen = std::collections::HashSet::new();
    for (i, vs) in res {
        for x in vs {
            if seen.insert(x.sig()) {
                ctx.report("c12.case", json!({"case": serde_json::to_value(&cases[i]).unwrap()}), vec![x]);
            }
        }
    }
    run_pt(
        ctx,
        Pt {
            name: "c12.case",
            cases: ctx.scale(300_000, 1_500_000),
            max_len: 700,
            decode: &decode,
            oracle: &oracle,
            nontrivial: &nontrivial,
            classify: &|c: &Case, l: &mut Vec<String>| match c {
                Case::Slit(n, ops) => {
                    l.push(format!("slit:N{}", if *n > 8 { ">8".to_string() } else { n.to_string() }));
                    if ops.iter().any(|(a, b, _)| a == b) {
                        l.push("slit:diagonal".into());
                    }
                }
                Case::Sllbi(i, t, _) => l.push(format!("sllbi:{}", shape_class(*i, *t))),
            },
            to_json: &|c: &Case| serde_json::to_value(c).unwrap(),
        },
    );
}

pub fn replay(case: &serde_json::Value) -> Vec<Violation> {
    let c: Case = serde_json::from_value(case.clone()).expect("C12 case");
    oracle(&c)
}
