//! C04 — image = reference encoding of the caller's values.

use super::common::*;
use crate::engine::*;
use crate::tables::drive::*;
use crate::tables::expect::*;
use crate::tables::gen::*;
use crate::tables::refenc;
use crate::tables::types::*;

pub const ALL: &[Kind] = &ALL_KINDS;

fn locate(k: Kind, entries: &[refenc::RefEntry], off: usize) -> (String, String) {
    if off < 36 && k.has_header() {
        let f = match off {
            0..=3 => "signature",
            4..=7 => "Length",
            8 => "Revision",
            9 => "Checksum",
            10..=15 => "OEMID",
            16..=23 => "OEM table id",
            24..=27 => "OEM revision",
            28..=31 => "creator id",
            _ => "creator revision",
        };
        return (k.name().to_string(), format!("header:{}", f));
    }
    for e in entries {
        if off >= e.offset && off < e.offset + e.bytes.len() {
            return (format!("{}/{}", k.name(), e.label), format!("entry-offset={}", off - e.offset));
        }
    }
    (k.name().to_string(), format!("table-offset={}", off))
}

pub fn oracle(p: &Program) -> Vec<Violation> {
    // a caller overwriting the FADT builder's pub Length field is C01's subject only (see C02)
    let sanitized;
    let p = if p.kind == Kind::Fadt {
        sanitized = super::c02::sanitize(p);
        &sanitized
    } else {
        p
    };
    let flat = flatten(p);
    let mut tr = Tracker::new(p, &flat);
    let mut out: Vec<Violation> = Vec::new();
    let name = p.kind.name();
    if p.kind == Kind::Sdt {
        // the generic table's reference is the byte-vector model of C13
        return super::c13::oracle(p).into_iter().map(|mut v| {
            v.property = "C04".into();
            v
        }).collect();
    }
    let total = flat.len();
    let r = drive(p, &flat, &mut |o: &Obs| {
        let mismatch = tr.observe(&flat, o.step, o.refused);
        if !out.is_empty() || tr.undefined {
            return;
        }
        let accepted = &tr.accepted;
        if let Some(kind) = mismatch {
            out.push(Violation::new("C04", &format!("{}/{}", name, flat[o.step - 1].label()), kind, String::new(), format!("step={} op={}", o.step, trunc(format!("{:?}", flat[o.step - 1]), 300))));
            return;
        }
        // compare on every prefix of short histories, sparsely on long ones
        if !(total <= 48 || o.step == total || o.step % 61 == 0 || o.step <= 3) {
            return;
        }
        let (want, entries, _) = refenc::image(p, accepted);
        if want.as_slice() == o.image {
            return;
        }
        let n = want.len().min(o.image.len());
        let mut diffs = (0..n).filter(|i| want[*i] != o.image[*i]);
        // skip the checksum byte when something else differs too (it is a consequence)
        let first = diffs.clone().find(|i| *i != 9 || !p.kind.has_header()).or_else(|| diffs.next());
        match first {
            Some(off) => {
                let (subject, detail) = locate(p.kind, &entries, off);
                out.push(Violation::new(
                    "C04",
                    &subject,
                    "layout-diff",
                    detail,
                    format!("step={} table-offset={} got={:#04x} want={:#04x} got_len={} want_len={}", o.step, off, o.image[off], want[off], o.image.len(), want.len()),
                ));
            }
            None => {
                let last = entries.last().map(|e| format!("{}/{}", name, e.label)).unwrap_or(name.to_string());
                out.push(Violation::new("C04", &last, "layout-diff", "image-length".into(), format!("step={} got_len={} want_len={}", o.step, o.image.len(), want.len())));
            }
        }
    });
    if r.ctor_refused {
        out.push(Violation::new("C04", name, "refused-valid", "ctor".into(), format!("{:?}", p.ctor)));
    }
    out
}

fn distinct_or_bit(v: u64, w: u32) -> bool {
    if v == 0 {
        return false;
    }
    if v.count_ones() == 1 {
        return true;
    }
    let b = v.to_le_bytes();
    let w = (w / 8) as usize;
    w > 1 && (0..w).all(|i| (i + 1..w).all(|j| b[i] != b[j]))
}

/// non-trivial: the program carries at least one value whose bytes are pairwise
/// distinct or a single bit (so a misplaced field is visible)
fn nontrivial(p: &Program) -> bool {
    let js = serde_json::to_value(p).unwrap();
    fn walk(v: &serde_json::Value) -> bool {
        match v {
            serde_json::Value::Number(n) => n.as_u64().map_or(false, |x| x > 0xff && (distinct_or_bit(x, 64) || distinct_or_bit(x, 32) || distinct_or_bit(x, 16))),
            serde_json::Value::Array(a) => a.iter().any(walk),
            serde_json::Value::Object(o) => o.values().any(walk),
            _ => false,
        }
    }
    !p.ops.is_empty() && walk(&js)
}

pub fn run(ctx: &Ctx) {
    ctx.set_rule("generated builder programs over all 22 kinds and every entry type (every scalar from the biased generator: 0, max, single bits, byte fills, distinct-byte patterns, random; every enum variant; optional parts present/absent; pub fields of FADTBuilder/FACS/ProcessorNode set directly) compared byte for byte with an independently written specification-layout encoder (refenc.rs, Appendix A of DESIGN.md), on every prefix of short histories; plus the directed histories of C01. Non-trivial = program with at least one op and at least one multi-byte value whose bytes are pairwise distinct or a single bit; distinct by hash. Also: GenericAddress helpers for every access width; the UEFI generic error status block (block-status bits for counts 0/1/>1, severity codes) and data entry (field order and widths after the section type); a refused SLIT assignment outside the matrix must leave the image equal to the reference of the accepted calls.");
    ctx.assume("pinned to the crate's documented choice, not a specification: header Revision bytes, creator id RVAT / 00 00 00 01, VIOT endpoint start = first BDF, CHBS length from CXL version, TCPA server spec revision 01 02, acpi_enable() => 1/0, absent GHES notification = zeroed structure");
    ctx.assume("CXL RDPAS: the published record length (16) and field list (17 bytes) disagree; the reference uses both as published (C02/C03 report the inconsistency)");
    ctx.assume("the reference layouts are transcribed from the specifications as recalled offline (no network); every constant is commented with its source in refenc.rs");
    let seed = ctx.seed;
    table_list(ctx, "c04.directed", directed_programs(ALL, seed), &oracle, &nontrivial);
    generic_address_helpers(ctx);
    uefi_error_records(ctx);
    one_field_sweep(ctx);
    table_pt(ctx, "c04.random", ALL, ctx.scale(8_000, 400_000), &oracle, &nontrivial);
}

/// `sdt::GenericAddress::{io_port_address, mmio_address}`: the 12-byte generic address structure
/// (ACPI 6.5 5.2.3.2) for the caller's address, with the access size of the type parameter
fn generic_address_helpers(ctx: &Ctx) {
    use acpi_tables::sdt::GenericAddress;
    use zerocopy::IntoBytes;
    let mut vs = Vec::new();
    let mut n = 0u64;
    let mut check = |what: &str, g: GenericAddress, space: u8, bytes: u8, addr: u64| {
        n += 1;
        let mut want = vec![space, 8 * bytes, 0, [0u8, 1, 2, 0, 3, 0, 0, 0, 4][bytes as usize]];
        want.extend_from_slice(&addr.to_le_bytes());
        if g.as_bytes() != want.as_slice() {
            vs.push(Violation::new("C04", "sdt::GenericAddress", "layout-diff", what.to_string(), format!("addr={:#x} got={:02x?} want={:02x?}", addr, g.as_bytes(), want)));
        }
    };
    for addr in crate::props::c08::special_values() {
        check("mmio_address::<u8>", GenericAddress::mmio_address::<u8>(addr), 0, 1, addr);
        check("mmio_address::<u16>", GenericAddress::mmio_address::<u16>(addr), 0, 2, addr);
        check("mmio_address::<u32>", GenericAddress::mmio_address::<u32>(addr), 0, 4, addr);
        check("mmio_address::<u64>", GenericAddress::mmio_address::<u64>(addr), 0, 8, addr);
        let p = addr as u16;
        check("io_port_address::<u8>", GenericAddress::io_port_address::<u8>(p), 1, 1, p as u64);
        check("io_port_address::<u16>", GenericAddress::io_port_address::<u16>(p), 1, 2, p as u64);
        check("io_port_address::<u32>", GenericAddress::io_port_address::<u32>(p), 1, 4, p as u64);
        check("io_port_address::<u64>", GenericAddress::io_port_address::<u64>(p), 1, 8, p as u64);
    }
    // register types whose alignment is smaller than their size (the access size follows the size)
    {
        use zerocopy::byteorder::little_endian::{U16, U32, U64};
        let a = 0x0102_0304_0506_0708u64;
        check("mmio_address::<U16<LE>>", GenericAddress::mmio_address::<U16>(a), 0, 2, a);
        check("mmio_address::<U32<LE>>", GenericAddress::mmio_address::<U32>(a), 0, 4, a);
        check("mmio_address::<U64<LE>>", GenericAddress::mmio_address::<U64>(a), 0, 8, a);
        check("mmio_address::<[u8; 2]>", GenericAddress::mmio_address::<[u8; 2]>(a), 0, 2, a);
        check("mmio_address::<[u8; 4]>", GenericAddress::mmio_address::<[u8; 4]>(a), 0, 4, a);
        check("mmio_address::<[u8; 8]>", GenericAddress::mmio_address::<[u8; 8]>(a), 0, 8, a);
        check("mmio_address::<[u16; 2]>", GenericAddress::mmio_address::<[u16; 2]>(a), 0, 4, a);
        check("mmio_address::<i32>", GenericAddress::mmio_address::<i32>(a), 0, 4, a);
        check("io_port_address::<U32<LE>>", GenericAddress::io_port_address::<U32>(0x3f8), 1, 4, 0x3f8);
        check("io_port_address::<[u8; 2]>", GenericAddress::io_port_address::<[u8; 2]>(0x3f8), 1, 2, 0x3f8);
    }
    ctx.add_evals(n);
    ctx.add_nontrivial_counted(n / 2);
    ctx.add_engine("directed:c04.generic-address-helpers", n);
    vs.sort_by_key(|v| v.sig());
    vs.dedup_by_key(|v| v.sig());
    ctx.report("c04.generic-address", serde_json::json!({"case": "generic-address-helpers"}), vs);
}

/// The generic error status block and its data entries (ACPI 6.5 18.3.2.7.1, tables 18.11 and
/// 18.12): public objects of src/hest.rs that are written to the error status region, not into
/// a table.
fn uefi_error_records(ctx: &Ctx) {
    let (n, vs) = uefi_error_record_violations();
    ctx.add_evals(n);
    ctx.add_nontrivial_counted(n);
    ctx.add_engine("directed:c04.uefi-error-records", n);
    ctx.report("c04.uefi-error-records", serde_json::json!({"case": "uefi-error-records"}), vs);
}

fn uefi_error_record_violations() -> (u64, Vec<Violation>) {
    use acpi_tables::hest::{ErrorSeverity, GenericErrorData, GenericErrorStatus};
    let mut vs = Vec::new();
    let mut n = 0u64;
    let sevs = [(ErrorSeverity::Recoverable, 0u32), (ErrorSeverity::Fatal, 1), (ErrorSeverity::Correctable, 2), (ErrorSeverity::None, 3)];
    let counts = [0u32, 1, 2, 3, 0xff, 0x100, u32::MAX];
    for (sev, code) in sevs {
        for cc in counts {
            for uc in counts {
                n += 1;
                let b = ser(&GenericErrorStatus::new(cc, uc, sev));
                let mut bad = |detail: &str, info: String| vs.push(Violation::new("C04", "hest::GenericErrorStatus", "layout-diff", detail.to_string(), format!("correctable={} uncorrectable={} severity={} bytes={:02x?} {}", cc, uc, code, b, info)));
                if b.len() != 20 {
                    bad("block size", format!("len={}", b.len()));
                    continue;
                }
                let st = le32(&b, 0);
                // bit 0 uncorrectable valid, bit 1 correctable valid, bit 2 multiple uncorrectable,
                // bit 3 multiple correctable, bits 4-13 entry count (no entries can be added), rest reserved
                let class = |count: u32, valid: u32, multiple: u32, name: &str| -> Option<String> {
                    let got = st & ((1 << valid) | (1 << multiple));
                    match count {
                        0 if got != 0 => Some(format!("{}: no error of this class, bits {:#x} set", name, got)),
                        1 if got != 1 << valid => Some(format!("{}: one error, expected the valid bit only, found {:#x}", name, got)),
                        c if c > 1 && got & (1 << multiple) == 0 => Some(format!("{}: {} errors, multiple bit clear", name, c)),
                        _ => None,
                    }
                };
                if let Some(e) = class(uc, 0, 2, "uncorrectable") {
                    bad("block-status uncorrectable bits", e);
                }
                if let Some(e) = class(cc, 1, 3, "correctable") {
                    bad("block-status correctable bits", e);
                }
                if st >> 4 != 0 {
                    bad("block-status reserved/count bits", format!("status={:#x}", st));
                }
                if le32(&b, 4) != 0 || le32(&b, 8) != 0 || le32(&b, 12) != 0 {
                    bad("raw-data/data-length fields", String::new());
                }
                if le32(&b, 16) != code {
                    bad("severity", format!("found={}", le32(&b, 16)));
                }
            }
        }
    }
    // data entry: every pub field carries a distinct pattern
    for (sev, code) in sevs {
        for round in 0..4u8 {
            n += 1;
            let mut d = GenericErrorData::new(sev);
            let k = round.wrapping_mul(0x31);
            d.section_type = 0xa1b2u16.wrapping_add(k as u16);
            d.revision = 0x0300 + round as u16;
            d.validation = 0xc3 ^ k;
            d.flags = 0xd4 ^ k;
            d.error_data_length = 0x0102_0304u32.wrapping_mul(round as u32 + 1);
            d.fru_id = core::array::from_fn(|i| (0x10 + i as u8).wrapping_add(k));
            d.fru_text = core::array::from_fn(|i| (0x40 + i as u8).wrapping_add(k));
            d.timestamp = core::array::from_fn(|i| (0x70 + i as u8).wrapping_add(k));
            if round % 2 == 1 {
                d.add_data(Box::new(0x1122_3344_5566_7788u64));
            }
            let b = ser(&d);
            // table 18.12: section type 16 | severity 4 | revision 2 | validation 1 | flags 1 |
            // data length 4 | FRU id 16 | FRU text 20 | timestamp 8 | data
            let tail = |v: &mut Vec<u8>| {
                v.extend_from_slice(&code.to_le_bytes());
                v.extend_from_slice(&d.revision.to_le_bytes());
                v.push(d.validation);
                v.push(d.flags);
                v.extend_from_slice(&d.error_data_length.to_le_bytes());
                v.extend_from_slice(&d.fru_id);
                v.extend_from_slice(&d.fru_text);
                v.extend_from_slice(&d.timestamp);
                if round % 2 == 1 {
                    v.extend_from_slice(&[0x0e, 0x88, 0x77, 0x66, 0x55, 0x44, 0x33, 0x22, 0x11]);
                }
            };
            let mut spec = vec![0u8; 16];
            spec[..2].copy_from_slice(&d.section_type.to_le_bytes());
            tail(&mut spec);
            let mut short = d.section_type.to_le_bytes().to_vec();
            tail(&mut short);
            if b == spec {
                continue;
            }
            if b == short {
                // everything else is in place: the one disagreement is the width of the first field
                vs.push(Violation::new("C04", "hest::GenericErrorData", "layout-diff", "section-type is 2 bytes (specification: 16-byte GUID)".into(), format!("entry header is {} bytes, table 18.12 has 72", b.len() - if round % 2 == 1 { 9 } else { 0 })));
                continue;
            }
            let off = b.iter().zip(short.iter()).position(|(x, y)| x != y).unwrap_or(b.len().min(short.len()));
            vs.push(Violation::new("C04", "hest::GenericErrorData", "layout-diff", format!("entry-offset={}", off), format!("got={:02x?} want={:02x?}", b, short)));
        }
    }
    vs.sort_by_key(|v| v.sig());
    vs.dedup_by_key(|v| v.sig());
    (n, vs)
}

/// One field at a time: programs whose shape comes from a byte string as usual, but in which
/// every caller-supplied scalar is zero except one, which carries a distinct-byte pattern. A field
/// landing at the wrong offset, two swapped fields, a wrong width or byte order is then a byte
/// diff against the reference even where random values would collide.
fn one_field_sweep(ctx: &Ctx) {
    use rayon::prelude::*;
    let rounds = ctx.scale(500, 6_000);
    let seed = ctx.seed;
    let jobs: Vec<(Kind, u64)> = ALL.iter().flat_map(|k| (0..rounds / 10).map(move |r| (*k, r))).collect();
    let res: Vec<(u64, u64, Vec<(Program, Violation)>)> = jobs
        .par_iter()
        .map(|(k, r)| {
            let bytes = lcg_bytes(mix(seed, k.name(), 0x5eed_0000 + *r), 40 + (*r as usize % 5) * 30);
            let mut s = Choices::new(&bytes);
            let p0 = gen_program_of(&mut s, *k);
            let n = s.scalars().min(400);
            let _ = p0;
            let mut out = Vec::new();
            let mut nt = 0u64;
            for t in 0..n {
                let mut s = Choices::new_sparse(&bytes, t);
                let p = gen_program_of(&mut s, *k);
                nt += 1;
                for v in guarded("C04", &|p: &Program| oracle(p), &p) {
                    if out.len() < 3 {
                        out.push((p.clone(), v));
                    }
                }
            }
            (n as u64, nt, out)
        })
        .collect();
    let mut evals = 0;
    let mut nts = 0;
    let mut seen = std::collections::HashSet::new();
    for (n, nt, vs) in res {
        evals += n;
        nts += nt;
        for (p, v) in vs {
            if seen.insert(v.sig()) {
                ctx.report("c04.one-field", serde_json::json!({"case": serde_json::to_value(&p).unwrap()}), vec![v]);
            }
        }
    }
    ctx.add_evals(evals);
    ctx.add_nontrivial_counted(nts);
    ctx.add_engine("directed:c04.one-field-sweep", evals);
    ctx.add_class("one-field-sweep-programs", evals);
    ctx.add_sample(serde_json::json!({"one-field sweep": "all scalars zero except the t-th drawn, which is 0x0807060504030201 truncated to its width (byte arrays: a1 a2 a3 ...)"}));
}

pub fn replay(case: &serde_json::Value) -> Vec<Violation> {
    if case.as_str() == Some("generic-address-helpers") {
        return vec![]; // re-run by every check run (directed, no stored input)
    }
    if case.as_str() == Some("uefi-error-records") {
        return uefi_error_record_violations().1;
    }
    let p: Program = serde_json::from_value(case.clone()).expect("C04 case");
    oracle(&p)
}
