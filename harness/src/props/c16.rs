//! C16 — EISA identifiers and UUIDs are encoded per the ACPI compression rules.

use super::c07::pkglen_decode;
use super::c08::{decode_int, Buf};
use crate::engine::*;
use acpi_tables::{aml, Aml};
use rayon::prelude::*;
use serde::{Deserialize, Serialize};
use serde_json::json;
use std::panic::{catch_unwind, AssertUnwindSafe};

/// ACPI 6.5 19.3.4 / 19.6.37 EISAID: decompress the 32-bit value (as decoded
/// from the AML integer) back to the 7-character identifier
pub fn eisa_decompress(v: u32) -> [u8; 7] {
    let b = v.to_le_bytes();
    const HEX: &[u8; 16] = b"0123456789ABCDEF";
    [
        0x40 + ((b[0] >> 2) & 0x1f),
        0x40 + (((b[0] & 0x03) << 3) | (b[1] >> 5)),
        0x40 + (b[1] & 0x1f),
        HEX[(b[2] >> 4) as usize],
        HEX[(b[2] & 0xf) as usize],
        HEX[(b[3] >> 4) as usize],
        HEX[(b[3] & 0xf) as usize],
    ]
}

pub fn check_eisa_bytes(id: &[u8; 7], emitted: &[u8]) -> Option<(&'static str, String)> {
    match decode_int(emitted) {
        Some((v, used)) if used == emitted.len() && v <= u32::MAX as u64 => {
            let back = eisa_decompress(v as u32);
            let up: Vec<u8> = id.iter().map(|c| c.to_ascii_uppercase()).collect();
            if back[..] != up[..] {
                // name the first differing position: stable across inputs
                let pos = (0..7).find(|i| back[*i] != up[*i]).unwrap();
                Some(("eisa-value", format!("position={}", pos)))
            } else if bit7(v as u32) {
                Some(("eisa-value", "reserved-bit-7".into()))
            } else {
                None
            }
        }
        _ => Some(("eisa-format", "not a single integer constant of at most 32 bits".into())),
    }
}
fn bit7(v: u32) -> bool {
    v.to_le_bytes()[0] & 0x80 != 0
}

pub fn check_eisa(id: &[u8; 7]) -> Option<Violation> {
    let s = std::str::from_utf8(id).unwrap();
    let mut buf = Buf::new();
    let r = catch_unwind(AssertUnwindSafe(|| {
        aml::EISAName::new(s).to_aml_bytes(&mut buf);
    }));
    if r.is_err() {
        return Some(Violation::new("C16", "EISAName", "refused-valid", "valid id".into(), format!("id={}", s)));
    }
    check_eisa_bytes(id, buf.get()).map(|(k, d)| Violation::new("C16", "EISAName", k, d, format!("id={} emitted={:02x?}", s, buf.get())))
}

pub fn check_malformed_eisa(s: &str, class: &str) -> Option<Violation> {
    let r = catch_unwind(AssertUnwindSafe(|| {
        let mut v = Vec::new();
        aml::EISAName::new(s).to_aml_bytes(&mut v);
        v
    }));
    match r {
        Err(_) => None,
        Ok(b) => Some(Violation::new("C16", "EISAName", "accepted-malformed", class.to_string(), format!("input={:?} emitted={:02x?}", s, b))),
    }
}

/// ToUUID (ACPI 6.5 19.6.150): aabbccdd-eeff-gghh-iijj-kkllmmnnoopp ->
/// dd cc bb aa ff ee hh gg ii jj kk ll mm nn oo pp; this is the inverse
pub fn uuid_from_buffer(b: &[u8; 16]) -> String {
    let order: [usize; 16] = [3, 2, 1, 0, 5, 4, 7, 6, 8, 9, 10, 11, 12, 13, 14, 15];
    let mut s = String::new();
    for (i, &o) in order.iter().enumerate() {
        if i == 4 || i == 6 || i == 8 || i == 10 {
            s.push('-');
        }
        s.push_str(&format!("{:02x}", b[o]));
    }
    s
}

pub fn check_uuid(text: &str) -> Option<Violation> {
    let r = catch_unwind(AssertUnwindSafe(|| {
        let mut v = Vec::new();
        aml::Uuid::new(text).to_aml_bytes(&mut v);
        v
    }));
    let b = match r {
        Err(_) => return Some(Violation::new("C16", "Uuid", "refused-valid", "canonical uuid".into(), format!("uuid={}", text))),
        Ok(b) => b,
    };
    // Buffer: 11 PkgLength 0A 10 <16 bytes>
    let framed = b.len() == 20 && b[0] == 0x11 && pkglen_decode(&b[1..]).ok() == Some((19, 1)) && b[2] == 0x0a && b[3] == 0x10;
    if !framed {
        return Some(Violation::new("C16", "Uuid", "uuid-format", "not Buffer(16)".into(), format!("uuid={} emitted={:02x?}", text, b)));
    }
    let mut raw = [0u8; 16];
    raw.copy_from_slice(&b[4..20]);
    let back = uuid_from_buffer(&raw);
    if back != text.to_ascii_lowercase() {
        let pos = back.bytes().zip(text.to_ascii_lowercase().bytes()).position(|(a, b)| a != b).unwrap_or(0);
        return Some(Violation::new("C16", "Uuid", "uuid-value", format!("char-position={}", pos), format!("uuid={} back={}", text, back)));
    }
    None
}

pub fn check_malformed_uuid(s: &str, class: &str) -> Option<Violation> {
    let r = catch_unwind(AssertUnwindSafe(|| {
        let mut v = Vec::new();
        aml::Uuid::new(s).to_aml_bytes(&mut v);
        v
    }));
    match r {
        Err(_) => None,
        Ok(b) => Some(Violation::new("C16", "Uuid", "accepted-malformed", class.to_string(), format!("input={:?} emitted={:02x?}", s, &b[..b.len().min(24)]))),
    }
}

#[derive(Clone, Debug, Hash, Serialize, Deserialize)]
pub enum Case {
    Eisa(String),
    BadEisa(String, String),
    Uuid(String),
    BadUuid(String, String),
}

pub fn oracle(c: &Case) -> Vec<Violation> {
    match c {
        Case::Eisa(s) => {
            let mut id = [0u8; 7];
            id.copy_from_slice(s.as_bytes());
            check_eisa(&id).into_iter().collect()
        }
        Case::BadEisa(s, c) => check_malformed_eisa(s, c).into_iter().collect(),
        Case::Uuid(s) => check_uuid(s).into_iter().collect(),
        Case::BadUuid(s, c) => check_malformed_uuid(s, c).into_iter().collect(),
    }
}

const HEXU: &[u8; 16] = b"0123456789ABCDEF";
const HEXL: &[u8; 16] = b"0123456789abcdef";
const NONHEX: &[u8] = b"GZgz-_ .:/@`+xX#~!$%&*,;<=>?[]^{|}'()\"\\hHoOlL";

fn gen_eisa(s: &mut Choices) -> String {
    let mut v = Vec::new();
    for _ in 0..3 {
        v.push(b'A' + s.below(26) as u8);
    }
    let lower = s.chance(32);
    for _ in 0..4 {
        v.push(if lower { HEXL } else { HEXU }[s.below(16) as usize]);
    }
    String::from_utf8(v).unwrap()
}

fn gen_uuid(s: &mut Choices) -> String {
    let mode = s.below(3);
    let mut t = String::new();
    for i in 0..32 {
        if i == 8 || i == 12 || i == 16 || i == 20 {
            t.push('-');
        }
        let d = s.below(16) as usize;
        t.push(match mode {
            0 => HEXL[d] as char,
            1 => HEXU[d] as char,
            _ => {
                if s.bool() {
                    HEXL[d] as char
                } else {
                    HEXU[d] as char
                }
            }
        });
    }
    t
}

pub fn decode(s: &mut Choices) -> Case {
    match s.below(8) {
        0 | 1 | 2 => Case::Eisa(gen_eisa(s)),
        3 => {
            let good = gen_eisa(s);
            match s.below(2) {
                0 => {
                    let n = s.pick(&[0usize, 1, 2, 3, 4, 5, 6, 8, 9, 10]);
                    let long = format!("{}123", good);
                    Case::BadEisa(long[..n].to_string(), format!("length={}", n))
                }
                _ => {
                    let pos = 3 + s.below(4) as usize;
                    let mut b = good.into_bytes();
                    b[pos] = s.pick(NONHEX);
                    Case::BadEisa(String::from_utf8(b).unwrap(), format!("non-hex-digit position={}", pos))
                }
            }
        }
        4 | 5 | 6 => Case::Uuid(gen_uuid(s)),
        _ => {
            let good = gen_uuid(s);
            match s.below(4) {
                0 => Case::BadUuid(good[..35].to_string(), "length=35".into()),
                1 => Case::BadUuid(format!("{}0", good), "length=37".into()),
                2 => {
                    // displace or replace one separator
                    let dash = s.pick(&[8usize, 13, 18, 23]);
                    let mut b = good.into_bytes();
                    if s.bool() {
                        let other = if s.bool() { dash - 1 } else { dash + 1 };
                        b.swap(dash, other);
                        Case::BadUuid(String::from_utf8(b).unwrap(), format!("separator-displaced at={}", dash))
                    } else {
                        b[dash] = s.pick(b"0af_ :");
                        Case::BadUuid(String::from_utf8(b).unwrap(), format!("separator-replaced at={}", dash))
                    }
                }
                _ => {
                    let nib = s.below(32) as usize;
                    let pos = nib + [0, 1, 2, 3, 4][(nib >= 8) as usize + (nib >= 12) as usize + (nib >= 16) as usize + (nib >= 20) as usize];
                    let mut b = good.into_bytes();
                    b[pos] = s.pick(NONHEX);
                    if b[pos] == b'-' {
                        b[pos] = b'g';
                    }
                    Case::BadUuid(String::from_utf8(b).unwrap(), format!("non-hex-digit char={}", pos))
                }
            }
        }
    }
}

fn distinct7(id: &[u8; 7]) -> bool {
    (0..7).all(|i| (i + 1..7).all(|j| id[i] != id[j]))
}

pub fn run(ctx: &Ctx) {
    ctx.set_rule("EISA: the emitted integer constant (any width the narrowing chose) is decoded, decompressed by the specification rule and compared with the identifier; thorough: all 26^3*16^4 identifiers; quick: every character position over its whole alphabet plus random identifiers. UUID: the emitted Buffer(16) is converted back through the mixed-endian ToUUID order and compared (case-folded) with the input; every nibble position x 16 digits x both cases plus random strings. Malformed (wrong length, displaced/replaced separator, non-hex digit at each digit position) must be refused. Non-trivial = identifier whose 7 characters are pairwise distinct / UUID whose 16 bytes are pairwise distinct / any malformed string; distinct by value.");
    ctx.assume("characters outside the classes the property lists (e.g. lower-case letters in the EISA vendor part) are not generated");
    let mut found: Vec<(Case, Violation)> = Vec::new();
    // EISA positions exhaustively
    let mut n = 0u64;
    let mut nt = 0u64;
    for pos in 0..7 {
        let alpha: Vec<u8> = if pos < 3 { (b'A'..=b'Z').collect() } else { HEXU.iter().chain(HEXL[10..].iter()).copied().collect() };
        for c in alpha {
            for base in [*b"PNP0A03", *b"ABC1234", *b"ZZZFFFF", *b"AAA0000"] {
                let mut id = base;
                id[pos] = c;
                n += 1;
                if distinct7(&id) {
                    nt += 1;
                }
                if let Some(v) = check_eisa(&id) {
                    found.push((Case::Eisa(String::from_utf8(id.to_vec()).unwrap()), v));
                }
            }
        }
    }
    ctx.add_subdomain("EISA: every character position over its whole alphabet, 4 base ids", n, true);
    if !ctx.quick() {
        let res: Vec<(u64, Vec<([u8; 7], Violation)>)> = (0..26u32 * 26 * 26)
            .into_par_iter()
            .map(|l| {
                let mut out = Vec::new();
                let mut ntl = 0u64;
                let mut id = [b'A' + (l / 676) as u8, b'A' + ((l / 26) % 26) as u8, b'A' + (l % 26) as u8, 0, 0, 0, 0];
                for d in 0..65536u32 {
                    id[3] = HEXU[(d >> 12) as usize & 15];
                    id[4] = HEXU[(d >> 8) as usize & 15];
                    id[5] = HEXU[(d >> 4) as usize & 15];
                    id[6] = HEXU[d as usize & 15];
                    if distinct7(&id) {
                        ntl += 1;
                    }
                    if let Some(v) = check_eisa(&id) {
                        if out.len() < 2 {
                            out.push((id, v));
                        }
                    }
                }
                (ntl, out)
            })
            .collect();
        let total = 26u64 * 26 * 26 * 65536;
        n += total;
        for (c, v) in res {
            nt += c;
            for (id, x) in v {
                found.push((Case::Eisa(String::from_utf8(id.to_vec()).unwrap()), x));
            }
        }
        ctx.add_subdomain("EISA: all 26^3 * 16^4 identifiers", total, true);
    }
    // UUID nibble positions
    let base_uuid = "01234567-89ab-cdef-fedc-ba9876543210";
    let mut m = 0u64;
    for nib in 0..32usize {
        let pos = nib + (nib >= 8) as usize + (nib >= 12) as usize + (nib >= 16) as usize + (nib >= 20) as usize;
        for d in 0..16 {
            for alpha in [HEXL, HEXU] {
                let mut b = base_uuid.as_bytes().to_vec();
                b[pos] = alpha[d];
                let t = String::from_utf8(b).unwrap();
                m += 1;
                if let Some(v) = check_uuid(&t) {
                    found.push((Case::Uuid(t), v));
                }
            }
        }
    }
    ctx.add_subdomain("UUID: every nibble position x 16 digits x both letter cases", m, true);
    // malformed catalogue
    let mut bad: Vec<Case> = Vec::new();
    for len in [0usize, 1, 2, 3, 4, 5, 6, 8, 9, 10] {
        bad.push(Case::BadEisa("PNP0A0312"[..len.min(9)].to_string() + &"0"[..(len > 9) as usize], format!("length={}", len)));
    }
    let printable_nonhex: Vec<u8> = (0x20u8..0x7f).filter(|c| !(*c as char).is_ascii_hexdigit()).collect();
    for pos in 3..7 {
        for &c in &printable_nonhex {
            let mut b = b"PNP0A03".to_vec();
            b[pos] = c;
            bad.push(Case::BadEisa(String::from_utf8(b).unwrap(), format!("non-hex-digit position={}", pos)));
        }
    }
    bad.push(Case::BadUuid(base_uuid[..35].to_string(), "length=35".into()));
    bad.push(Case::BadUuid(format!("{}f", base_uuid), "length=37".into()));
    bad.push(Case::BadUuid(String::new(), "length=0".into()));
    for dash in [8usize, 13, 18, 23] {
        for other in [dash - 1, dash + 1] {
            let mut b = base_uuid.as_bytes().to_vec();
            b.swap(dash, other);
            bad.push(Case::BadUuid(String::from_utf8(b).unwrap(), format!("separator-displaced at={}", dash)));
        }
        for &c in b"0af_ :" {
            let mut b = base_uuid.as_bytes().to_vec();
            b[dash] = c;
            bad.push(Case::BadUuid(String::from_utf8(b).unwrap(), format!("separator-replaced at={}", dash)));
        }
    }
    // a separator moved by 1..3 positions in either direction (length stays 36), and two
    // separators moved at once
    let plain: Vec<u8> = base_uuid.bytes().filter(|c| *c != b'-').collect();
    let with_dashes = |at: [usize; 4]| -> String {
        // `at` = positions of the four dashes in the 36-character string
        let mut out = Vec::new();
        let mut k = 0;
        for i in 0..36 {
            if at.contains(&i) {
                out.push(b'-');
            } else {
                out.push(plain[k % 32]);
                k += 1;
            }
        }
        String::from_utf8(out).unwrap()
    };
    let good = [8usize, 13, 18, 23];
    for d in 0..4 {
        for shift in [-3i32, -2, -1, 1, 2, 3] {
            let mut at = good;
            at[d] = (at[d] as i32 + shift) as usize;
            if at.iter().collect::<std::collections::BTreeSet<_>>().len() == 4 {
                bad.push(Case::BadUuid(with_dashes(at), format!("separator-moved by={}", shift.abs())));
            }
            for e in d + 1..4 {
                let mut at2 = at;
                at2[e] = (at2[e] as i32 + shift) as usize;
                if at2.iter().collect::<std::collections::BTreeSet<_>>().len() == 4 && at2.iter().all(|x| *x < 36) {
                    bad.push(Case::BadUuid(with_dashes(at2), format!("two-separators-moved by={}", shift.abs())));
                }
            }
        }
    }
    // non-ASCII characters at a digit position (some have a hex digit as their low byte)
    for nib in [0usize, 7, 8, 13, 19, 31] {
        let pos = nib + (nib >= 8) as usize + (nib >= 12) as usize + (nib >= 16) as usize + (nib >= 20) as usize;
        for c in ['\u{130}', '\u{141}', '\u{161}', '\u{665}', '\u{ff11}', '\u{ff21}', '\u{e9}', '\u{3b1}'] {
            let t: String = base_uuid.chars().enumerate().map(|(i, x)| if i == pos { c } else { x }).collect();
            bad.push(Case::BadUuid(t, "non-ascii-digit".into()));
        }
    }
    for nib in 0..32usize {
        let pos = nib + (nib >= 8) as usize + (nib >= 12) as usize + (nib >= 16) as usize + (nib >= 20) as usize;
        for &c in &printable_nonhex {
            // every printable non-hex character (sign characters and radix letters included)
            let mut b = base_uuid.as_bytes().to_vec();
            b[pos] = c;
            bad.push(Case::BadUuid(String::from_utf8(b).unwrap(), format!("non-hex-digit char={}", pos)));
        }
    }
    for c in &bad {
        for v in oracle(c) {
            found.push((c.clone(), v));
        }
    }
    ctx.add_subdomain("malformed catalogue (lengths, separators, non-hex at every digit position)", bad.len() as u64, true);
    ctx.add_evals(n + m + bad.len() as u64);
    ctx.add_nontrivial_counted(nt + bad.len() as u64);
    ctx.add_engine("enumeration:c16", n + m + bad.len() as u64);
    ctx.add_sample(json!({"eisa": "PNP0A03", "expect-dword": "0x030AD041"}));
    ctx.add_sample(json!({"uuid": base_uuid, "expect-buffer": "67 45 23 01 ab 89 ef cd fe dc ba 98 76 54 32 10"}));
    found.sort_by_key(|(_, v)| v.sig());
    found.dedup_by_key(|(_, v)| v.sig());
    for (c, v) in found {
        ctx.report("c16.case", json!({"case": serde_json::to_value(&c).unwrap()}), vec![v]);
    }
    run_pt(
        ctx,
        Pt {
            name: "c16.case",
            cases: ctx.scale(400_000, 4_000_000),
            max_len: 96,
            decode: &decode,
            oracle: &oracle,
            nontrivial: &|c: &Case| match c {
                Case::Eisa(s) => {
                    let mut id = [0u8; 7];
                    id.copy_from_slice(s.as_bytes());
                    distinct7(&id)
                }
                Case::Uuid(s) => {
                    let h: Vec<u8> = s.bytes().filter(|c| *c != b'-').collect();
                    let bytes: Vec<&[u8]> = h.chunks(2).collect();
                    (0..16).all(|i| (i + 1..16).all(|j| !bytes[i].eq_ignore_ascii_case(bytes[j])))
                }
                _ => true,
            },
            classify: &|c: &Case, l: &mut Vec<String>| {
                l.push(
                    match c {
                        Case::Eisa(_) => "eisa-valid",
                        Case::BadEisa(..) => "eisa-malformed",
                        Case::Uuid(_) => "uuid-valid",
                        Case::BadUuid(..) => "uuid-malformed",
                    }
                    .into(),
                )
            },
            to_json: &|c: &Case| serde_json::to_value(c).unwrap(),
        },
    );
}

pub fn replay(case: &serde_json::Value) -> Vec<Violation> {
    let c: Case = serde_json::from_value(case.clone()).expect("C16 case");
    oracle(&c)
}
