//! C06 — emitted AML parses back to exactly the term tree the caller built.

use crate::aml::build::emit;
use crate::aml::parse::*;
use crate::aml::res::Res;
use crate::aml::term::*;
use crate::engine::*;
use crate::props::c09::PathCase;
use rayon::prelude::*;
use serde_json::json;
use std::collections::{BTreeMap, HashMap};
use std::panic::{catch_unwind, AssertUnwindSafe};

fn strip_digits(s: &str) -> String {
    let mut out = String::new();
    let mut last_hash = false;
    for c in s.chars() {
        if c.is_ascii_digit() {
            if !last_hash {
                out.push('#');
            }
            last_hash = true;
        } else {
            out.push(c);
            last_hash = false;
        }
    }
    out
}

/// judge one tree as a whole: None = fine
pub fn judge(t: &Term) -> Option<(String, String, String)> {
    let bytes = match catch_unwind(AssertUnwindSafe(|| emit(t))) {
        Ok(b) => b,
        Err(_) => return Some(("refused-valid".into(), String::new(), String::new())),
    };
    let mut arity = HashMap::new();
    collect_arities(t, &mut arity);
    let want = vec![norm(t)];
    match parse_all(&bytes, &arity) {
        Err((off, why)) => Some(("aml-parse".into(), strip_digits(&why), format!("offset={} reason={} bytes[..]={:02x?}", off, why, &bytes[..bytes.len().min(24)]))),
        Ok(got) => {
            if got == want {
                None
            } else if got.len() != 1 {
                Some(("aml-tree-diff".into(), format!("objects-parsed={}", got.len().min(3)), format!("bytes[..]={:02x?}", &bytes[..bytes.len().min(24)])))
            } else {
                let d = first_diff(&want[0], &got[0]).unwrap_or_default();
                Some(("aml-tree-diff".into(), d, format!("bytes[..]={:02x?}", &bytes[..bytes.len().min(32)])))
            }
        }
    }
}

pub fn oracle(t: &Term) -> Vec<Violation> {
    let Some(top) = judge(t) else { return vec![] };
    // localise: the smallest sub-term that fails on its own names the constructor
    let mut subs: Vec<(&Term, u32)> = Vec::new();
    walk_terms(t, &mut |x, d| subs.push((x, d)), 0);
    let mut best: Option<(&Term, (String, String, String))> = None;
    for (x, _) in subs.iter().rev() {
        if matches!(x, Term::Filler(_)) {
            continue;
        }
        if let Some(j) = judge(x) {
            let size = format!("{:?}", x).len();
            if best.as_ref().map_or(true, |(b, _)| format!("{:?}", b).len() > size) {
                best = Some((x, j));
            }
        }
    }
    let (subject, (kind, detail, info)) = match best {
        Some((x, j)) => (label(x), j),
        None => (format!("{}(context)", label(t)), top),
    };
    vec![Violation::new("C06", &subject, &kind, detail, trunc(info, 300))]
}

pub fn decode(s: &mut Choices) -> Term {
    gen_tree(s)
}

fn p1(s: &str) -> PathCase {
    PathCase { rooted: false, segs: vec![s.to_string()] }
}

/// every length-prefixed kind with a body of (about) n bytes
pub const SIZED_KINDS: [&str; 15] = [
    "Package", "PackageBuilder", "VarPackageTerm", "ResourceTemplate", "Device", "Scope", "Scope::raw", "Method", "PowerResource", "If", "Else", "While", "Field", "BufferData", "BufferTerm",
];

pub fn sized_object(kind: usize, n: u32) -> Term {
    let fill = |n: u32| vec![Term::Filler(n)];
    match kind {
        0 => Term::Package(fill(n)),
        1 => Term::PackageB(fill(n)),
        2 => Term::VarPackage(Box::new(Term::U8(1)), fill(n)),
        3 => {
            // n bytes of descriptors from 8-byte IO and 9-byte Interrupt items
            let b = n % 8;
            let a = if n >= 9 * b { (n - 9 * b) / 8 } else { n / 8 };
            let b = if n >= 9 * b { b } else { 0 };
            let mut v = Vec::new();
            for i in 0..a {
                v.push(Res::Io { min: i as u16, max: i as u16, align: 1, len: 8 });
            }
            for i in 0..b {
                v.push(Res::Interrupt { consumer: true, edge: false, active_low: false, shared: true, number: i });
            }
            Term::ResourceTemplate(v)
        }
        4 => Term::Device(p1("DEV0"), fill(n)),
        5 => Term::Scope(p1("_SB_"), fill(n)),
        6 => Term::ScopeRaw(p1("_SB_"), fill(n)),
        7 => Term::Method(p1("MET0"), 2, true, fill(n)),
        8 => Term::PowerResource(p1("PWR0"), 3, 0x1234, fill(n)),
        9 => Term::If(Box::new(Term::One), fill(n)),
        10 => Term::Else(fill(n)),
        11 => Term::While(Box::new(Term::Local(1)), fill(n)),
        12 => {
            let mut els = Vec::new();
            for i in 0..n / 5 {
                els.push(FieldEl::Named([b'F', b'A' + (i % 26) as u8, b'0' + ((i / 26) % 10) as u8, b'_'], (i % 60) as u64 + 1));
            }
            for _ in 0..(n % 5) / 2 {
                els.push(FieldEl::Reserved(8));
            }
            Term::Field(p1("REG0"), 1, 0, 0, els)
        }
        13 => Term::BufferData((0..n).map(|i| i as u8).collect()),
        _ => Term::BufferTerm(Box::new(Term::Filler(n))),
    }
}

pub fn boundary_sizes(all: bool) -> Vec<u32> {
    if all {
        return (0..=4200).collect();
    }
    let mut v: Vec<u32> = (0..=80).collect();
    v.extend(4060..=4110);
    // the buffer-size integer changes width at 255/256 (and 65535/65536, added by the callers)
    v.extend(225..=275);
    v.extend((81..4060).step_by(53));
    v.sort();
    v.dedup();
    v
}

fn nesting_depth(t: &Term) -> u32 {
    let mut m = 0;
    walk_terms(t, &mut |_, d| m = m.max(d), 0);
    m
}

pub fn run(ctx: &Ctx) {
    ctx.set_rule("generated sort-correct term trees over every exported constructor (depth <= 6, filler-steered body sizes around 63/64 and 4095/4096 at every nesting level) are built as real nested crate objects, serialised, and parsed back by an independent recursive-descent parser (opcode table from the specification; told only the arity of invoked method names); the parse must consume all bytes, every length-delimited object must end exactly where its last child ends, and the parse tree must equal the normal form of the built tree (integers by value, EISA/UUID by decoded identity, operands in specification order). Directed: every length-prefixed kind with bodies sweeping 0..4200 (all sizes in thorough) and 2^20 +- 8. Non-trivial = tree with >= 2 levels of length-prefixed nesting; distinct by hash. Package / PackageBuilder with 0..17, 63, 64, 127, 128, 253, 254, 255 elements; builders are re-used after refused elements (Arg7/Local8, the 256th element) and serialised before they are complete; every tree is serialised after a discarded serialisation and through several sinks.");
    ctx.assume("trees are sort-correct AML (data objects, expressions, targets, package elements in their grammatical positions); method-call names carry their arity, which is the only thing the parser is told");
    // directed: sized objects
    let sizes = boundary_sizes(!ctx.quick());
    let mut cases: Vec<Term> = Vec::new();
    for k in 0..SIZED_KINDS.len() {
        for n in &sizes {
            cases.push(sized_object(k, *n));
        }
        // nested twice: inner growth changes the outer PkgLength width
        for n in [40u32, 55, 56, 57, 58, 59, 60, 61, 62, 4070, 4080, 4085, 4086, 4087, 4088, 4089, 4090, 4091] {
            cases.push(Term::Scope(p1("OUT0"), vec![Term::Method(p1("MID0"), 0, false, vec![sized_object(k, n)])]));
        }
    }
    // element counts up to the 255 a NumElements byte can hold (the builder is re-used after a
    // refused element, see aml::build)
    for n in (0usize..=17).chain([63, 64, 127, 128, 253, 254, 255]) {
        let es: Vec<Term> = (0..n).map(|i| if i % 3 == 2 { Term::U16(0x1000 + i as u16) } else { Term::U8(i as u8) }).collect();
        cases.push(Term::Package(es.clone()));
        cases.push(Term::PackageB(es.clone()));
        cases.push(Term::Name(p1("PKG0"), Box::new(Term::PackageB(es))));
    }
    // 64 KiB: the embedded size integers go from word to dword
    for k in 0..SIZED_KINDS.len() {
        for n in 65_515u32..=65_545 {
            if ctx.quick() && n % 2 == 0 && !(65_528..=65_538).contains(&n) {
                continue;
            }
            cases.push(sized_object(k, n));
        }
    }
    let big: Vec<u32> = if ctx.quick() { vec![(1 << 20) - 8, (1 << 20) - 1, (1 << 20) + 3] } else { ((1 << 20) - 12..(1 << 20) + 12).collect() };
    for k in [5usize, 6, 7, 13, 0] {
        for n in &big {
            cases.push(sized_object(k, *n));
        }
    }
    let res: Vec<(usize, Vec<Violation>)> = cases.par_iter().enumerate().map(|(i, c)| (i, guarded("C06", &oracle, c))).filter(|(_, v)| !v.is_empty()).collect();
    ctx.add_evals(cases.len() as u64);
    ctx.add_engine("directed:c06.sized", cases.len() as u64);
    ctx.add_subdomain("every length-prefixed kind x body sizes around/through every PkgLength width boundary (+ nested twice)", cases.len() as u64, !ctx.quick());
    ctx.add_nontrivial(cases.iter().filter(|c| nesting_depth(c) >= 2).map(fingerprint));
    let mut seen = std::collections::HashSet::new();
    for (i, vs) in res {
        for x in vs {
            if seen.insert(x.sig()) {
                ctx.report("c06.tree", json!({"case": serde_json::to_value(&cases[i]).unwrap()}), vec![x]);
            }
        }
    }
    ctx.add_sample(serde_json::to_value(&sized_object(7, 3)).unwrap());
    run_pt(
        ctx,
        Pt {
            name: "c06.tree",
            cases: ctx.scale(200_000, 1_000_000),
            max_len: 900,
            decode: &decode,
            oracle: &oracle,
            nontrivial: &|t: &Term| nesting_depth(t) >= 2,
            classify: &|t: &Term, l: &mut Vec<String>| {
                let mut m: BTreeMap<String, u32> = BTreeMap::new();
                walk_terms(t, &mut |x, _| *m.entry(label(x)).or_insert(0) += 1, 0);
                for k in m.keys() {
                    l.push(format!("ctor:{}", k));
                }
                l.push(format!("depth:{}", nesting_depth(t).min(6)));
            },
            to_json: &|t: &Term| serde_json::to_value(t).unwrap(),
        },
    );
}

pub fn replay(case: &serde_json::Value) -> Vec<Violation> {
    let t: Term = serde_json::from_value(case.clone()).expect("C06 case");
    oracle(&t)
}
