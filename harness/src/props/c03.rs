//! C03 — table bodies are exactly tiled by self-describing entries; counts agree.

use super::common::*;
use crate::engine::*;
use crate::tables::drive::*;
use crate::tables::expect::*;
use crate::tables::gen::*;
use crate::tables::types::*;
use crate::tables::walk::*;

pub const KINDS: &[Kind] = &BODY_KINDS;

pub fn check_image(k: Kind, img: &[u8], accepted: &[Op], step: usize, out: &mut Vec<Violation>) {
    let name = k.name();
    let w = walk(k, img);
    for i in &w.issues {
        out.push(Violation::new("C03", &i.subject, i.kind, i.detail.clone(), format!("step={} {}", step, i.info)));
    }
    // a length field that disagrees with the entry's size does not stop the walk (it re-syncs on
    // the specification's size), so the remaining checks still run: one finding must not hide another
    if w.issues.iter().any(|i| i.kind != "entry-length-mismatch") {
        return;
    }
    if k == Kind::Slit {
        return;
    }
    let exp: Vec<(u32, Vec<u32>)> = accepted.iter().filter_map(expected_entry).collect();
    // summarising count fields
    for (n, v) in &w.summary {
        if *v != w.entries.len() as u64 {
            out.push(Violation::new("C03", name, "count-field", format!("{} != entries walked", n), format!("step={} field={} walked={}", step, v, w.entries.len())));
            return;
        }
    }
    if w.entries.len() != exp.len() {
        out.push(Violation::new("C03", name, "entry-count", "entries walked != entries added".into(), format!("step={} walked={} added={}", step, w.entries.len(), exp.len())));
        return;
    }
    for (i, (e, (ty, subs))) in w.entries.iter().zip(exp.iter()).enumerate() {
        // XSDT/MCFG entries carry no type
        let typed = !matches!(k, Kind::Xsdt | Kind::Mcfg);
        if typed && e.ty != *ty {
            out.push(Violation::new(
                "C03",
                &format!("{}/{}", name, accepted.iter().filter(|o| expected_entry(o).is_some()).nth(i).map_or("?", |o| o.label())),
                "entry-order",
                format!("expected-type={:#x} found-type={:#x}", ty, e.ty),
                format!("step={} index={} offset={}", step, i, e.offset),
            ));
            return;
        }
        if e.subs != *subs {
            out.push(Violation::new(
                "C03",
                &format!("{}/{}", name, type_name(k, e.ty)),
                "count-field",
                "nested count != elements supplied".into(),
                format!("step={} index={} found={:?} supplied={:?}", step, i, e.subs, subs),
            ));
            return;
        }
    }
}

/// The entry an op adds is a public object of its own: serialised alone it must be refused or be
/// one self-describing entry (own length field == its bytes, nested counts consistent with them).
/// The walker is run on a fabricated one-entry table.
pub fn standalone(kind: Kind, op: &Op, out: &mut Vec<Violation>) {
    use std::panic::{catch_unwind, AssertUnwindSafe};
    let mut got: Option<Vec<u8>> = None;
    let r = catch_unwind(AssertUnwindSafe(|| match op {
        // also with a target list that does not match the interleave ways (must be refused)
        Op::Cfmws { base, size, arith, gran, ways, qtg, restr, targets } => got = Some(ser(&mk_cfmws(*base, *size, *arith, *gran, *ways, *qtg, restr, targets))),
        _ => with_entry(op, &mut |_, a, _| got = Some(ser(a))),
    }));
    let (Ok(()), Some(b)) = (r, got) else { return };
    let first = crate::tables::refenc::first_entry_offset(kind);
    let mut img = vec![0u8; first];
    let put = |img: &mut Vec<u8>, o: usize, w: usize, v: u64| img[o..o + w].copy_from_slice(&v.to_le_bytes()[..w]);
    match kind {
        Kind::Rhct => {
            put(&mut img, 48, 4, 1);
            put(&mut img, 52, 4, 56);
        }
        Kind::Rimt => {
            put(&mut img, 36, 4, 1);
            put(&mut img, 40, 4, 48);
        }
        Kind::Viot => {
            put(&mut img, 36, 2, 1);
            put(&mut img, 38, 2, 48);
        }
        Kind::Madt | Kind::Srat | Kind::Hmat | Kind::Pptt | Kind::Cedt => {}
        _ => return,
    }
    img.extend_from_slice(&b);
    let w = walk(kind, &img);
    for i in &w.issues {
        out.push(Violation::new("C03", &i.subject, i.kind, i.detail.clone(), format!("stand-alone entry {}: {}", op.label(), i.info)));
    }
    if w.issues.is_empty() && (w.entries.len() != 1 || w.entries[0].len != b.len()) {
        out.push(Violation::new("C03", &format!("{}/{}", kind.name(), op.label()), "entry-length-mismatch", "stand-alone entry".into(), format!("entries={} bytes={}", w.entries.len(), b.len())));
    }
}

pub fn oracle(p: &Program) -> Vec<Violation> {
    let flat = flatten(p);
    let mut tr = Tracker::new(p, &flat);
    let mut out: Vec<Violation> = Vec::new();
    let total = flat.len();
    drive(p, &flat, &mut |o: &Obs| {
        let mismatch = tr.observe(&flat, o.step, o.refused);
        if tr.undefined {
            return;
        }
        if let (Some(kind), true) = (mismatch, !out.iter().any(|v| v.kind == "refused-valid" || v.kind == "accepted-invalid")) {
            out.push(Violation::new("C03", &format!("{}/{}", p.kind.name(), flat[o.step - 1].label()), kind, String::new(), format!("step={}", o.step)));
        }
        if out.iter().any(|v| v.kind != "entry-length-mismatch") {
            return;
        }
        let accepted = &tr.accepted;
        if !(total <= 64 || o.step == total || o.step % 53 == 0 || o.step <= 3) {
            return;
        }
        check_image(p.kind, o.image, accepted, o.step, &mut out);
        let mut seen = std::collections::HashSet::new();
        out.retain(|v| seen.insert(v.sig()));
    });
    for op in flat.iter().take(24) {
        standalone(p.kind, op, &mut out);
    }
    let mut seen = std::collections::HashSet::new();
    out.retain(|v| seen.insert(v.sig()));
    out.truncate(6);
    out
}

fn nontrivial(p: &Program) -> bool {
    let flat = flatten(p);
    let mut kinds = std::collections::BTreeSet::new();
    let mut var = false;
    for o in &flat {
        kinds.insert(o.label());
        if let Some((_, subs)) = expected_entry(o) {
            if subs.iter().any(|s| *s > 0) {
                var = true;
            }
        }
    }
    (flat.len() >= 2 && kinds.len() >= 2) || var || (p.kind == Kind::Slit && !flat.is_empty())
}

fn classify(p: &Program, l: &mut Vec<String>) {
    classify_program(p, l);
    // per-kind position coverage: a short entry only corrupts the walk when something follows
    let flat = flatten(p);
    let n = flat.len();
    for (i, o) in flat.iter().enumerate() {
        if n >= 3 && (i == 0 || i + 1 == n) {
            l.push(format!("pos:{}:{}:{}", p.kind.name(), o.label(), if i == 0 { "first" } else { "last" }));
        }
    }
    l.sort();
    l.dedup();
}

pub fn run(ctx: &Ctx) {
    ctx.set_rule("generated add sequences over all entry kinds of the 13 variable-body tables; the emitted image is walked by an independent walker from the specification's first-entry offset, stepping by each entry's own length field (or the specification's fixed size), with the specification's size for every type; the walk must land exactly on the end of the image, visit exactly the added entries in order with the right type codes, and every summarising field (entry/node/device/source/controller counts, locality count^2, per-entry element counts, array offsets, string lengths) must equal what the walk found; checked on every prefix of short histories. Non-trivial = >= 2 entries of >= 2 kinds, or an entry with >= 1 sub-element; distinct by hash. Also: every entry of a program is serialised on its own and walked as a one-entry table (a CFMWS whose target list does not match its ways must be refused there too); after the known RDPAS length mismatch the walk re-syncs on the specification size so that later findings are not hidden; side cache / CXIMS / QoS controller objects are re-used after a refused call.");
    ctx.assume("entry parameters fit the entry's length field (larger ones are C18's subject); documented preconditions as in C01");
    let seed = ctx.seed;
    table_list(ctx, "c03.directed", directed_programs(KINDS, seed), &oracle, &nontrivial);
    let decode = |s: &mut Choices| gen_program(s, KINDS);
    run_pt(
        ctx,
        Pt {
            name: "c03.random",
            cases: ctx.scale(8_000, 400_000),
            max_len: 1500,
            decode: &decode,
            oracle: &oracle,
            nontrivial: &nontrivial,
            classify: &classify,
            to_json: &|p: &Program| serde_json::to_value(p).unwrap(),
        },
    );
}

pub fn replay(case: &serde_json::Value) -> Vec<Violation> {
    let p: Program = serde_json::from_value(case.clone()).expect("C03 case");
    oracle(&p)
}
