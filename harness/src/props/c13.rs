//! C13 — the generic table (Sdt) behaves as a byte vector with a
//! self-maintaining header. Oracle: Vec<u8> model.

use super::common::*;
use crate::engine::*;
use crate::tables::drive::*;
use crate::tables::expect::*;
use crate::tables::gen::*;
use crate::tables::types::*;
use rayon::prelude::*;
use serde_json::json;

fn fix_sum(m: &mut [u8]) {
    m[9] = 0;
    let s = sum8(m);
    m[9] = 0u8.wrapping_sub(s);
}

pub fn model_new(p: &Program) -> Vec<u8> {
    let Ctor::Sdt { sig, len, rev } = &p.ctor else { panic!("not an Sdt program") };
    let mut m = Vec::new();
    m.extend_from_slice(sig);
    m.extend_from_slice(&len.to_le_bytes());
    m.push(*rev);
    m.push(0);
    m.extend_from_slice(&p.hdr.oem_id);
    m.extend_from_slice(&p.hdr.oem_table_id);
    m.extend_from_slice(&p.hdr.oem_rev.to_le_bytes());
    m.extend_from_slice(b"RVAT");
    m.extend_from_slice(&[0, 0, 0, 1]);
    m.resize(*len as usize, 0);
    fix_sum(&mut m);
    m
}

/// apply one op to the model; false if the op is outside the domain (refused)
pub fn model_apply(m: &mut Vec<u8>, o: &SdtOp) -> bool {
    let append = |m: &mut Vec<u8>, b: &[u8]| {
        m.extend_from_slice(b);
        let l = (m.len() as u32).to_le_bytes();
        m[4..8].copy_from_slice(&l);
        fix_sum(m);
    };
    let write = |m: &mut Vec<u8>, off: u64, b: &[u8]| -> bool {
        match off.checked_add(b.len() as u64) {
            Some(e) if e <= m.len() as u64 => {
                m[off as usize..e as usize].copy_from_slice(b);
                fix_sum(m);
                true
            }
            _ => false,
        }
    };
    match o {
        SdtOp::AppendU8(v) | SdtOp::SinkByte(v) => append(m, &[*v]),
        SdtOp::AppendU16(v) | SdtOp::SinkWord(v) => append(m, &v.to_le_bytes()),
        SdtOp::AppendU32(v) | SdtOp::SinkDword(v) => append(m, &v.to_le_bytes()),
        SdtOp::AppendU64(v) | SdtOp::SinkQword(v) => append(m, &v.to_le_bytes()),
        SdtOp::AppendSlice(v) => append(m, v),
        // bytes pushed through the sink arrive one at a time; pushing no bytes is not an append
        SdtOp::SinkVec(v) => {
            if !v.is_empty() {
                append(m, v)
            }
        }
        SdtOp::WriteU8(o, v) => return write(m, *o, &[*v]),
        SdtOp::WriteU16(o, v) => return write(m, *o, &v.to_le_bytes()),
        SdtOp::WriteU32(o, v) => return write(m, *o, &v.to_le_bytes()),
        SdtOp::WriteU64(o, v) => return write(m, *o, &v.to_le_bytes()),
        SdtOp::WriteSlice(o, v) => return write(m, *o, v),
        SdtOp::UpdateChecksum => fix_sum(m),
    }
    true
}

fn op_name(o: &SdtOp) -> &'static str {
    match o {
        SdtOp::AppendU8(_) => "append-u8",
        SdtOp::AppendU16(_) => "append-u16",
        SdtOp::AppendU32(_) => "append-u32",
        SdtOp::AppendU64(_) => "append-u64",
        SdtOp::AppendSlice(v) if v.is_empty() => "append-empty-slice",
        SdtOp::AppendSlice(_) => "append-slice",
        SdtOp::WriteU8(..) => "write-u8",
        SdtOp::WriteU16(..) => "write-u16",
        SdtOp::WriteU32(..) => "write-u32",
        SdtOp::WriteU64(..) => "write-u64",
        SdtOp::WriteSlice(..) => "write-slice",
        SdtOp::SinkByte(_) => "sink-byte",
        SdtOp::SinkWord(_) => "sink-word",
        SdtOp::SinkDword(_) => "sink-dword",
        SdtOp::SinkQword(_) => "sink-qword",
        SdtOp::SinkVec(_) => "sink-vec",
        SdtOp::UpdateChecksum => "update-checksum",
    }
}

fn v(kind: &str, detail: String, info: String) -> Violation {
    Violation::new("C13", "Sdt", kind, detail, info)
}

pub fn oracle(p: &Program) -> Vec<Violation> {
    let flat = flatten(p);
    let mut out = Vec::new();
    if ctor_refused(p) {
        let r = drive(p, &flat, &mut |_| {});
        if !r.ctor_refused {
            out.push(v("accepted-malformed", "declared length below 36".into(), format!("ctor={:?}", p.ctor)));
        }
        return out;
    }
    let mut model = model_new(p);
    let mut applied = 0usize;
    let mut undefined = false;
    let r = drive(p, &flat, &mut |o: &Obs| {
        let mut after = "ctor";
        let mut want_refused = false;
        while applied < o.step {
            if let Op::Sdt(so) = &flat[applied] {
                // Pushing *no* bytes through the sink: the property does not say whether that counts as
                // an append (which rewrites Length). It only matters while the Length field holds
                // something a caller wrote there; from such a push on the history is not judged.
                if matches!(so, SdtOp::SinkVec(v) if v.is_empty()) && le32(&model, 4) as usize != model.len() {
                    undefined = true;
                }
                want_refused = !model_apply(&mut model, so);
                after = op_name(so);
            }
            applied += 1;
        }
        if !out.is_empty() || undefined {
            return;
        }
        if o.step > 0 && want_refused != o.refused {
            if want_refused {
                out.push(v("accepted-out-of-range", format!("op:{}", after), format!("step={} op={:?} len={}", o.step, flat[o.step - 1], model.len())));
            } else {
                out.push(v("refused-valid", format!("op:{}", after), format!("step={} op={:?} len={}", o.step, flat[o.step - 1], model.len())));
            }
            return;
        }
        let (sl, len, empty) = o.sdt_view.as_ref().expect("sdt view");
        let kind = if o.refused { "changed-after-refusal" } else { "model-diff" };
        if sl.as_slice() != model.as_slice() {
            let off = sl.iter().zip(model.iter()).position(|(a, b)| a != b).unwrap_or(sl.len().min(model.len()));
            let region = if sl.len() != model.len() {
                "length"
            } else if off >= 4 && off < 8 {
                "length-field"
            } else if off == 9 {
                "checksum-byte"
            } else if off < 36 {
                "header"
            } else {
                "body"
            };
            out.push(v(kind, format!("after:{} region:{}", after, region), format!("step={} offset={} got_len={} want_len={}", o.step, off, sl.len(), model.len())));
        } else if o.image != model.as_slice() {
            out.push(v("serialised-differs", format!("after:{}", after), format!("step={}", o.step)));
        } else if *len != model.len() || *empty != model.is_empty() {
            out.push(v("len-accessor", format!("after:{}", after), format!("step={} len()={} is_empty()={}", o.step, len, empty)));
        } else if sum8(sl) != 0 {
            out.push(v("checksum", format!("after:{}", after), format!("step={}", o.step)));
        }
    });
    if r.ctor_refused {
        out.push(v("refused-valid", "ctor".into(), format!("ctor={:?}", p.ctor)));
    }
    out
}

fn nontrivial(p: &Program) -> bool {
    let flat = flatten(p);
    let app = flat.iter().any(|o| matches!(o, Op::Sdt(s) if sdt_op_growth(s) > 0));
    let hdr_write = flat.iter().any(|o| matches!(o, Op::Sdt(s) if sdt_write_span(s).map_or(false, |(o, w)| o < 36 && w > 0)));
    app && hdr_write
}

fn classify(p: &Program, l: &mut Vec<String>) {
    let flat = flatten(p);
    let mask = refusal_mask(p, &flat);
    if mask.iter().any(|x| *x) {
        l.push("has-out-of-range-write".into());
    }
    if ctor_refused(p) {
        l.push("ctor-length<36".into());
    }
    for o in &flat {
        if let Op::Sdt(s) = o {
            l.push(format!("op:{}", op_name(s)));
            if let Some((off, w)) = sdt_write_span(s) {
                if off <= 9 && off + w > 9 {
                    l.push("write-covers-checksum-byte".into());
                }
                if off < 8 && off + w > 4 {
                    l.push("write-covers-length-field".into());
                }
            }
        }
    }
    l.sort();
    l.dedup();
}

fn decode(s: &mut Choices) -> Program {
    let mut p = gen_program_of(s, Kind::Sdt);
    if s.chance(6) {
        if let Ctor::Sdt { len, .. } = &mut p.ctor {
            *len = s.below(36);
        }
    }
    p
}

/// reduced alphabet for the bounded-exhaustive part
fn alphabet(len: u64) -> Vec<SdtOp> {
    let mut a = vec![
        SdtOp::AppendU8(0x5a),
        SdtOp::AppendU16(0x1234),
        SdtOp::AppendU32(0xdead_beef),
        SdtOp::AppendU64(0x0102_0304_0506_0708),
        SdtOp::AppendSlice(vec![]),
        SdtOp::AppendSlice(vec![1, 2, 3]),
        SdtOp::SinkByte(0xff),
        SdtOp::SinkWord(0xa55a),
        SdtOp::SinkDword(1),
        SdtOp::SinkQword(u64::MAX),
        SdtOp::SinkVec(vec![9; 5]),
        SdtOp::UpdateChecksum,
    ];
    for off in [0u64, 4, 6, 9, 8, 35, len - 1, len, len + 1, len.saturating_sub(4), len.saturating_sub(8), u64::MAX, u64::MAX - 3] {
        a.push(SdtOp::WriteU8(off, 0x77));
        a.push(SdtOp::WriteU32(off, 0x8899_aabb));
        a.push(SdtOp::WriteU64(off, 0x1020_3040_5060_7080));
        a.push(SdtOp::WriteSlice(off, vec![]));
        a.push(SdtOp::WriteSlice(off, vec![0xee, 0xdd]));
    }
    a.push(SdtOp::WriteU16(9, 0xffff));
    a
}

pub fn run(ctx: &Ctx) {
    ctx.set_rule("operation sequences on the generic table against a Vec<u8> model (append rewrites bytes 4..8 with the new length; after every operation byte 9 makes the sum 0; an out-of-range write is refused and leaves the table unchanged); as_slice(), len(), is_empty() and the serialised bytes are compared after every operation. Bounded-exhaustive: all sequences of length <= 2 over a 78-op alphabet for initial lengths {36,37,44,300}; random sequences up to 600 ops over {append u8/u16/u32/u64/slice(incl. empty), write u8/u16/u32/u64/slice at header/checksum/last/one-past/huge offsets, sink byte/word/dword/qword/vec, update_checksum}; initial lengths 36..300, 4096, 65535/6 and < 36 (refused). Non-trivial = at least one append and one write overlapping bytes 0..36; distinct by hash.");
    let seed = ctx.seed;
    // bounded exhaustive
    let mut progs: Vec<Program> = Vec::new();
    for len in [36u32, 37, 44, 300] {
        let mut base = plain_program(Kind::Sdt, seed);
        base.ctor = Ctor::Sdt { sig: *b"TEST", len, rev: 3 };
        let a = alphabet(len as u64);
        progs.push(base.clone());
        for x in &a {
            let mut p = base.clone();
            p.ops = vec![Op::Sdt(x.clone())];
            progs.push(p);
            for y in &a {
                let mut p = base.clone();
                p.ops = vec![Op::Sdt(x.clone()), Op::Sdt(y.clone())];
                progs.push(p);
            }
        }
    }
    for len in 0..=300u32 {
        let mut p = plain_program(Kind::Sdt, seed);
        p.ctor = Ctor::Sdt { sig: *b"LENS", len, rev: 1 };
        p.ops = vec![Op::Sdt(SdtOp::AppendU8(1)), Op::Sdt(SdtOp::WriteU8(len as u64, 2))];
        progs.push(p);
    }
    let n = progs.len() as u64;
    let res: Vec<(usize, Vec<Violation>, bool)> = progs.par_iter().enumerate().map(|(i, p)| (i, guarded("C13", &oracle, p), nontrivial(p))).collect();
    ctx.add_evals(n);
    ctx.add_subdomain("all op sequences of length <= 2 over the reduced alphabet x initial lengths {36,37,44,300}; initial lengths 0..=300", n, true);
    ctx.add_engine("enumeration:c13", n);
    let mut seen = std::collections::HashSet::new();
    let mut fps = Vec::new();
    for (i, vs, nt) in res {
        if nt {
            fps.push(fingerprint(&progs[i]));
        }
        for x in vs {
            if seen.insert(x.sig()) {
                ctx.report("c13.program", json!({"case": serde_json::to_value(&progs[i]).unwrap()}), vec![x]);
            }
        }
    }
    ctx.add_nontrivial(fps);
    run_pt(
        ctx,
        Pt {
            name: "c13.program",
            cases: ctx.scale(60_000, 1_000_000),
            max_len: 1500,
            decode: &decode,
            oracle: &oracle,
            nontrivial: &nontrivial,
            classify: &classify,
            to_json: &|p: &Program| serde_json::to_value(p).unwrap(),
        },
    );
}

pub fn replay(case: &serde_json::Value) -> Vec<Violation> {
    let p: Program = serde_json::from_value(case.clone()).expect("C13 case");
    oracle(&p)
}
