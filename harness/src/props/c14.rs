//! C14 — output is deterministic and independent of the receiving sink.

use super::common::*;
use crate::aml::build::with_aml;
use crate::aml::term::{gen_tree, Term};
use crate::engine::*;
use crate::tables::drive::*;
use crate::tables::gen::*;
use crate::tables::types::*;
use acpi_tables::{aml, sdt, u8sum, Aml, AmlSink, Checksum};
use serde::{Deserialize, Serialize};
use serde_json::json;

/// a sink implementing only the mandatory single-byte method
struct ByteOnly(Vec<u8>);
impl AmlSink for ByteOnly {
    fn byte(&mut self, byte: u8) {
        self.0.push(byte);
    }
}

/// a sink overriding every method and logging the call pattern
#[derive(Default)]
struct Logging {
    data: Vec<u8>,
    calls: [u32; 5],
}
impl AmlSink for Logging {
    fn byte(&mut self, b: u8) {
        self.calls[0] += 1;
        self.data.push(b);
    }
    fn word(&mut self, w: u16) {
        self.calls[1] += 1;
        self.data.extend_from_slice(&w.to_le_bytes());
    }
    fn dword(&mut self, d: u32) {
        self.calls[2] += 1;
        self.data.extend_from_slice(&d.to_le_bytes());
    }
    fn qword(&mut self, q: u64) {
        self.calls[3] += 1;
        self.data.extend_from_slice(&q.to_le_bytes());
    }
    fn vec(&mut self, v: &[u8]) {
        self.calls[4] += 1;
        self.data.extend_from_slice(v);
    }
}

/// all sink checks on one object; returns the number of distinct sink entry points used
/// objects above 16 KiB go through the (quadratic) generic-table sink in the directed phase and in
/// replays only, not in the generated phase
pub static LARGE_THROUGH_TABLE_SINK: std::sync::atomic::AtomicBool = std::sync::atomic::AtomicBool::new(false);

pub fn check_object(subject: &str, o: &dyn Aml, raw: Option<&[u8]>, out: &mut Vec<Violation>) -> u32 {
    let v = |kind: &str, detail: &str, info: String| Violation::new("C14", subject, kind, detail.to_string(), info);
    let mut a = Vec::new();
    o.to_aml_bytes(&mut a);
    let mut b = Vec::new();
    o.to_aml_bytes(&mut b);
    if a != b {
        out.push(v("nondeterministic", "two serialisations differ", format!("len={} vs {}", a.len(), b.len())));
        return 0;
    }
    let mut bo = ByteOnly(Vec::new());
    o.to_aml_bytes(&mut bo);
    if bo.0 != a {
        let off = bo.0.iter().zip(a.iter()).position(|(x, y)| x != y).unwrap_or(a.len().min(bo.0.len()));
        out.push(v("sink-diff", "byte-only sink", format!("offset={} len={} vs {}", off, bo.0.len(), a.len())));
    }
    let mut lg = Logging::default();
    o.to_aml_bytes(&mut lg);
    if lg.data != a {
        let off = lg.data.iter().zip(a.iter()).position(|(x, y)| x != y).unwrap_or(a.len().min(lg.data.len()));
        out.push(v("sink-diff", "all-methods sink", format!("offset={} len={} vs {} calls={:?}", off, lg.data.len(), a.len(), lg.calls)));
    }
    let mut ck = Checksum::default();
    o.to_aml_bytes(&mut ck);
    let s = sum8(&a);
    if ck.raw_value() != s {
        out.push(v("sink-diff", "checksum sink", format!("raw={} sum={}", ck.raw_value(), s)));
    }
    if u8sum(o) != s {
        out.push(v("byte-sum-helper", "u8sum != arithmetic sum", format!("u8sum={} sum={}", u8sum(o), s)));
    }
    // (the generic table re-sums itself on every byte it receives: quadratic)
    if a.len() > 16_384 && !LARGE_THROUGH_TABLE_SINK.load(std::sync::atomic::Ordering::Relaxed) {
        return lg.calls.iter().filter(|c| **c > 0).count() as u32;
    }
    let mut t = sdt::Sdt::new(*b"SINK", 36, 1, *b"OEMIDX", *b"TABLEID0", 1);
    o.to_aml_bytes(&mut t);
    if &t.as_slice()[36..] != a.as_slice() {
        out.push(v("sink-diff", "generic-table sink", format!("len={} vs {}", t.len() - 36, a.len())));
    } else {
        // the table that received the bytes through the sink must be the table that received
        // them through append_slice (header Length and checksum included)
        let mut t2 = sdt::Sdt::new(*b"SINK", 36, 1, *b"OEMIDX", *b"TABLEID0", 1);
        t2.append_slice(&a);
        if t.as_slice() != t2.as_slice() {
            let off = t.as_slice().iter().zip(t2.as_slice().iter()).position(|(x, y)| x != y).unwrap_or(0);
            out.push(v("sink-diff", "generic-table sink: header differs from append_slice", format!("offset={} len={}", off, t.len())));
        }
    }
    let mut pb = aml::PackageBuilder::new();
    pb.add_element(o);
    let mut pbs = Vec::new();
    pb.to_aml_bytes(&mut pbs);
    if pbs.len() < a.len() || &pbs[pbs.len() - a.len()..] != a.as_slice() {
        out.push(v("sink-diff", "package-builder sink", format!("len={} vs {}", pbs.len(), a.len())));
    }
    if let Some(r) = raw {
        if r != a.as_slice() {
            let off = r.iter().zip(a.iter()).position(|(x, y)| x != y).unwrap_or(a.len().min(r.len()));
            out.push(v("raw-vs-serialised", "as_bytes() != serialised bytes", format!("offset={} raw_len={} serialised_len={}", off, r.len(), a.len())));
        }
    }
    lg.calls.iter().filter(|c| **c > 0).count() as u32
}

#[derive(Clone, Debug, Hash, Serialize, Deserialize)]
pub enum Case {
    Table(Program),
    Aml(Term),
}

pub fn oracle(c: &Case) -> Vec<Violation> {
    let mut out = Vec::new();
    match c {
        Case::Table(p) => {
            let flat = flatten(p);
            with_table(p, &flat, &mut |t| {
                check_object(p.kind.name(), t, None, &mut out);
            });
            with_raw_table(p, &mut |name, t, raw| {
                check_object(name, t, Some(raw), &mut out);
            });
            // serialising the table between two operations must not influence what it serialises to later
            let final_image = |every: bool| {
                let mut last: Option<Vec<u8>> = None;
                let n = flat.len();
                drive_with(p, &flat, &|s, t| every || s == t, &mut |o: &Obs| {
                    if o.step == n {
                        last = Some(o.image.to_vec());
                    }
                });
                last
            };
            if flat.len() >= 2 && flat.len() <= 64 {
                let (a, b) = (final_image(true), final_image(false));
                if a != b {
                    out.push(Violation::new("C14", p.kind.name(), "history-diff", "the final image depends on whether the table was serialised between operations".into(), format!("ops={}", flat.len())));
                }
            }
            let mut seen = std::collections::HashSet::new();
            for op in &p.ops {
                if out.len() > 3 {
                    break;
                }
                if seen.insert(op.label()) || seen.len() < 6 {
                    with_entry(op, &mut |name, o, raw| {
                        check_object(name, o, raw, &mut out);
                    });
                }
            }
        }
        Case::Aml(t) => {
            let r = std::panic::catch_unwind(std::panic::AssertUnwindSafe(|| {
                let mut o2 = Vec::new();
                with_aml(t, &mut |o| {
                    check_object(&crate::aml::term::label(t), o, None, &mut o2);
                });
                o2
            }));
            if let Ok(v) = r {
                out.extend(v);
            }
        }
    }
    out.truncate(4);
    out
}

fn entry_points(c: &Case) -> u32 {
    let mut n = 0;
    match c {
        Case::Table(p) => {
            let flat = flatten(p);
            with_table(p, &flat, &mut |t| {
                let mut lg = Logging::default();
                t.to_aml_bytes(&mut lg);
                n = lg.calls.iter().filter(|c| **c > 0).count() as u32;
            });
        }
        Case::Aml(t) => {
            let _ = std::panic::catch_unwind(std::panic::AssertUnwindSafe(|| {
                with_aml(t, &mut |o| {
                    let mut lg = Logging::default();
                    o.to_aml_bytes(&mut lg);
                    n = lg.calls.iter().filter(|c| **c > 0).count() as u32;
                })
            }));
        }
    }
    n
}

pub fn decode(s: &mut Choices) -> Case {
    if s.below(3) == 0 {
        Case::Aml(gen_tree(s))
    } else {
        Case::Table(gen_program(s, &ALL_KINDS))
    }
}

/// every public structure that has a raw in-memory form and a Default: raw == serialised
fn default_objects(out: &mut Vec<Violation>) -> u64 {
    use acpi_tables::{bert, facs, gas, hest, hmat, madt, pptt, rqsc, rsdp, srat, tpm2};
    use zerocopy::IntoBytes;
    let mut n = 0;
    macro_rules! d {
        ($name:expr, $t:ty) => {{
            let x: $t = Default::default();
            check_object(concat!($name, "::default()"), &x, Some(x.as_bytes()), out);
            n += 1;
        }};
    }
    d!("madt::ProcessorLocalApic", madt::ProcessorLocalApic);
    d!("madt::IoApic", madt::IoApic);
    d!("madt::Gicc", madt::Gicc);
    d!("madt::Gicd", madt::Gicd);
    d!("madt::GicMsi", madt::GicMsi);
    d!("madt::Gicr", madt::Gicr);
    d!("madt::GicIts", madt::GicIts);
    d!("madt::RINTC", madt::RINTC);
    d!("madt::IMSIC", madt::IMSIC);
    d!("srat::RintcAffinity", srat::RintcAffinity);
    d!("hmat::MemoryProximityDomain", hmat::MemoryProximityDomain);
    d!("pptt::CacheNode", pptt::CacheNode);
    d!("hest::PcieAerRootPort", hest::PcieAerRootPort);
    d!("hest::PcieAerDevice", hest::PcieAerDevice);
    d!("hest::PcieAerBridge", hest::PcieAerBridge);
    d!("hest::GenericHardwareSource", hest::GenericHardwareSource);
    d!("hest::GenericHardwareSourceV2", hest::GenericHardwareSourceV2);
    d!("hest::NotificationStructure", hest::NotificationStructure);
    d!("gas::GAS", gas::GAS);
    d!("bert::BERT", bert::BERT);
    d!("tpm2::TpmServer1_2", tpm2::TpmServer1_2);
    d!("facs::FACS", facs::FACS);
    d!("rsdp::Rsdp", rsdp::Rsdp);
    d!("rqsc::CacheResource", rqsc::CacheResource);
    d!("rqsc::MemoryAffinityStructureResource", rqsc::MemoryAffinityStructureResource);
    d!("rqsc::ACPIDeviceResource", rqsc::ACPIDeviceResource);
    d!("rqsc::PCIDeviceResource", rqsc::PCIDeviceResource);
    // the UEFI-defined error records of hest.rs (outside the README's table scope; they take part
    // in the determinism / sink-independence relation only)
    for (c, u, sev) in [(0u32, 0u32, hest::ErrorSeverity::None), (1, 1, hest::ErrorSeverity::Fatal), (2, 5, hest::ErrorSeverity::Correctable), (7, 1, hest::ErrorSeverity::Recoverable)] {
        let st = hest::GenericErrorStatus::new(c, u, sev);
        check_object("hest::GenericErrorStatus", &st, None, out);
        let mut d = hest::GenericErrorData::new(sev);
        d.section_type = 0x1234;
        d.revision = 0x0300;
        d.validation = 3;
        d.flags = 1;
        d.error_data_length = 24;
        d.fru_id = [0xa5; 16];
        d.fru_text = *b"FRU text 0123456789\0";
        d.timestamp = [1, 2, 3, 4, 5, 6, 7, 8];
        d.add_data(Box::new(0x1122_3344_5566_7788u64));
        d.add_data(Box::new(gas::GAS::new(gas::AddressSpace::SystemIo, 8, 0, gas::AccessSize::ByteAccess, 0x3f8)));
        check_object("hest::GenericErrorData", &d, None, out);
        n += 2;
    }
    // a package builder is both an object and a sink: serialising it between two calls must not
    // influence what it serialises to later (all call sequences of length <= 4 over four kinds of
    // call, every subset of positions at which it is serialised in between)
    {
        use acpi_tables::AmlSink;
        let apply = |pb: &mut aml::PackageBuilder, c: u8| match c {
            0 => pb.add_element(&0x42u8),
            1 => pb.add_element(&0x1122_3344_5566_7788u64),
            2 => pb.byte(0x5a),
            _ => pb.vec(&[1, 2, 3]),
        };
        for len in 1..=4usize {
            for code in 0..4u32.pow(len as u32) {
                let calls: Vec<u8> = (0..len).map(|i| ((code >> (2 * i)) & 3) as u8).collect();
                let mut plain = aml::PackageBuilder::new();
                for c in &calls {
                    apply(&mut plain, *c);
                }
                let want = ser(&plain);
                for mask in 1..(1u32 << len) {
                    let mut pb = aml::PackageBuilder::new();
                    for (i, c) in calls.iter().enumerate() {
                        apply(&mut pb, *c);
                        if mask >> i & 1 == 1 {
                            crate::aml::build::peek(&pb);
                        }
                    }
                    n += 1;
                    let mut got = Vec::new();
                    pb.to_aml_bytes(&mut got);
                    if got != want {
                        out.push(Violation::new("C14", "aml::PackageBuilder", "history-diff", "output depends on whether the builder was serialised between calls".into(), format!("calls={:?} serialised-after-mask={:#b} got={:02x?} want={:02x?}", calls, mask, got, want)));
                    }
                }
            }
        }
    }
    // builder chains on a default object
    let r = srat::RintcAffinity::default().proximity_domain(0x0102_0304).enabled();
    check_object("srat::RintcAffinity::default().builders", &r, Some(r.as_bytes()), out);
    n + 1
}

pub fn run(ctx: &Ctx) {
    LARGE_THROUGH_TABLE_SINK.store(true, std::sync::atomic::Ordering::Relaxed);
    {
        let mut vs = Vec::new();
        let n = default_objects(&mut vs);
        ctx.add_evals(n);
        ctx.add_engine("directed:c14.default-objects", n);
        vs.dedup_by_key(|v| v.sig());
        ctx.report("c14.default", json!({"case": "default-objects"}), vs);
    }
    ctx.set_rule("every object produced by the table generators of C01-C05/C11/C12 (whole tables, every entry/node/structure on its own, GAS, notification and resource sub-structures) and by the AML generator of C06 is serialised twice into the vector sink and once into: a sink implementing only byte(), a sink overriding all five methods (logging the call pattern), the checksum sink, the generic-table sink and the package-builder sink; the concatenated bytes must be identical everywhere, Checksum.raw_value() and u8sum() must equal the arithmetic byte sum, and for every structure that can be added through its raw in-memory form as_bytes() must equal the serialised bytes. Non-trivial = object whose serialisation uses >= 2 different sink entry points; distinct by hash. History independence: the final image of a table must not depend on whether it was serialised between operations, and a package builder (object and sink at once) must serialise to the same bytes whether or not it was serialised between calls (all call sequences of length <= 4 over {element u8, element u64, sink byte, sink slice} x every subset of intermediate serialisations).");
    let seed = ctx.seed;
    let progs = directed_programs(&ALL_KINDS, seed);
    let cases: Vec<Case> = progs.into_iter().map(Case::Table).collect();
    use rayon::prelude::*;
    let res: Vec<(usize, Vec<Violation>, bool)> = cases.par_iter().enumerate().map(|(i, c)| (i, guarded("C14", &oracle, c), entry_points(c) >= 2)).collect();
    ctx.add_evals(cases.len() as u64);
    ctx.add_engine("directed:c14", cases.len() as u64);
    let mut seen = std::collections::HashSet::new();
    let mut fps = Vec::new();
    for (i, vs, nt) in res {
        if nt {
            fps.push(fingerprint(&cases[i]));
        }
        for x in vs {
            if seen.insert(x.sig()) {
                ctx.report("c14.case", json!({"case": serde_json::to_value(&cases[i]).unwrap()}), vec![x]);
            }
        }
    }
    ctx.add_nontrivial(fps);
    LARGE_THROUGH_TABLE_SINK.store(false, std::sync::atomic::Ordering::Relaxed);
    run_pt(
        ctx,
        Pt {
            name: "c14.case",
            cases: ctx.scale(8_000, 300_000),
            max_len: 1200,
            decode: &decode,
            oracle: &oracle,
            nontrivial: &|c: &Case| entry_points(c) >= 2,
            classify: &|c: &Case, l: &mut Vec<String>| match c {
                Case::Table(p) => {
                    l.push(format!("table:{}", p.kind.name()));
                    let mut seen = std::collections::BTreeSet::new();
                    for op in &p.ops {
                        with_entry(op, &mut |name, _, raw| {
                            seen.insert(format!("object:{}{}", name, if raw.is_some() { ":raw" } else { "" }));
                        });
                    }
                    l.extend(seen);
                }
                Case::Aml(_) => l.push("aml-tree".into()),
            },
            to_json: &|c: &Case| serde_json::to_value(c).unwrap(),
        },
    );
}

pub fn replay(case: &serde_json::Value) -> Vec<Violation> {
    LARGE_THROUGH_TABLE_SINK.store(true, std::sync::atomic::Ordering::Relaxed);
    if case.as_str() == Some("default-objects") {
        let mut vs = Vec::new();
        default_objects(&mut vs);
        return vs;
    }
    let c: Case = serde_json::from_value(case.clone()).expect("C14 case");
    oracle(&c)
}
