//! C01 — every emitted static table carries a valid ACPI checksum, after
//! construction and after every builder operation. Oracle: arithmetic only.

use super::common::*;
use crate::engine::*;
use crate::tables::drive::*;
use crate::tables::expect::*;
use crate::tables::gen::flatten;
use crate::tables::types::*;

pub fn oracle(p: &Program) -> Vec<Violation> {
    let flat = flatten(p);
    let mask = refusal_mask(p, &flat);
    let open = open_mask(p, &flat);
    let mut out: Vec<Violation> = Vec::new();
    let mut prev: Option<Vec<u8>> = None;
    let name = p.kind.name();
    let mut tr = Tracker::new(p, &flat);
    let res = drive(p, &flat, &mut |o: &Obs| {
        let after = if o.step == 0 { "ctor".to_string() } else { flat[o.step - 1].label().to_string() };
        // a valid operation that panics (in this build profile) delivers no table at all
        if tr.observe(&flat, o.step, o.refused) == Some("refused-valid") && !out.iter().any(|v| v.kind == "refused-valid") {
            out.push(Violation::new("C01", &format!("{}/{}", name, after), "refused-valid", String::new(), format!("step={} op={}", o.step, trunc(format!("{:?}", flat[o.step - 1]), 200))));
        }
        let mut bad = |what: &str, sum: u8| {
            if out.len() < 8 {
                out.push(Violation::new(
                    "C01",
                    name,
                    "checksum",
                    format!("{} after:{}", what, after),
                    format!("step={} sum={} len={}", o.step, sum, o.image.len()),
                ));
            }
        };
        if p.kind == Kind::Rsdp {
            if o.image.len() >= 36 {
                let s20 = sum8(&o.image[..20]);
                if s20 != 0 {
                    bad("first-20", s20);
                }
            }
            let s = sum8(o.image);
            if s != 0 {
                bad("all-36", s);
            }
        } else {
            let s = sum8(o.image);
            if s != 0 {
                bad("image", s);
            }
            if let Some((sl, _, _)) = &o.sdt_view {
                let s = sum8(sl);
                if s != 0 {
                    bad("as_slice", s);
                }
            }
        }
        if o.refused && o.step > 0 && (mask[o.step - 1] || open[o.step - 1]) {
            if let Some(pv) = &prev {
                if pv.as_slice() != o.image && out.len() < 8 {
                    out.push(Violation::new("C01", name, "changed-after-refusal", format!("after:{}", after), format!("step={}", o.step)));
                }
            }
        }
        prev = Some(o.image.to_vec());
    });
    if res.ctor_refused && !ctor_refused(p) {
        out.push(Violation::new("C01", name, "refused-valid", "ctor".into(), format!("{:?}", p.ctor)));
    }
    out
}

fn nontrivial(p: &Program) -> bool {
    !p.ops.is_empty()
}

pub fn run(ctx: &Ctx) {
    ctx.set_rule("generated builder programs (constructor arguments + op history, proptest over a choice sequence) for the 21 checksummed kinds, plus directed histories [], [e], e x255/256/257, every ordered pair of entry kinds, and long histories across 65536 entries / 64 KiB; oracle: byte sum of the emitted image == 0 after every observed prefix (RSDP: first 20 and all 36 bytes; Sdt also as_slice()). Non-trivial = non-empty history; distinct by hash of the program. Also: every pub field of the FADT builder written directly (including its checksum byte and a Length below the real size), assignments to SLIT domains outside the matrix (refused or not, the sum must hold), and objects re-used after a refused call (the construction helpers attempt one where possible). Every image is serialised after a discarded serialisation and through several sinks.");
    ctx.assume("documented preconditions are part of the domain: device<32, function<8, one IMSIC via add_imsic, set_log_area once, CFMWS targets == ways, Sdt length >= 36, VIOT below 64 KiB; ops outside are generated rarely and must be refused leaving the table unchanged");
    ctx.assume("FACS is exempt (no checksum)");
    let seed = ctx.seed;
    table_list(ctx, "c01.directed", directed_programs(CHECKSUMMED, seed), &oracle, &nontrivial);
    table_list(ctx, "c01.long", long_programs(CHECKSUMMED, seed, ctx.quick()), &oracle, &nontrivial);
    table_pt(ctx, "c01.random", CHECKSUMMED, ctx.scale(6_000, 300_000), &oracle, &nontrivial);
}

pub fn replay(case: &serde_json::Value) -> Vec<Violation> {
    let p: Program = serde_json::from_value(case.clone()).expect("replay case must be a table program");
    oracle(&p)
}
