//! C18 — counts and sizes too large for their encoded field are refused
//! (panic), never wrapped; in a build with overflow checks and in a default
//! release build alike.

use super::c03::check_image;
use super::c07::pkglen_decode;
use crate::aml::build::emit;
use crate::aml::res::{AsType, Res};
use crate::aml::term::*;
use crate::engine::*;
use crate::props::c09::PathCase;
use crate::tables::drive::*;
use crate::tables::types::*;
use acpi_tables::{aml, rqsc, Aml};
use rayon::prelude::*;
use serde_json::json;
use std::panic::{catch_unwind, AssertUnwindSafe};

#[derive(Clone, Copy, Debug, PartialEq, Eq, Hash)]
pub enum Site {
    PackageElements,
    PackageBuilderElements,
    PathSegments,
    PathSegmentsRooted,
    MethodArgs,
    MethodArgsSerialized,
    PpttResourcesStandalone,
    RhctIsaStandalone,
    CximsStandalone,
    SideCacheStandalone,
    ArgIndex,
    LocalIndex,
    FieldWidthNamed,
    FieldWidthReserved,
    PkgLengthInclusive,
    PkgLengthRealBuffer,
    AddrRange16,
    AddrRange32,
    AddrRange64,
    PpttResources,
    CximsMaps,
    HmatSmbiosHandles,
    RimtWires,
    RimtRcMappings,
    RimtPlatformName,
    RimtPlatformMappings,
    ViotNodeCount,
    ViotHandleOffset,
    SlitLocalities,
    RhctIsaLength,
    RhctHartOffsets,
    RqscVendorData,
    RqscResources,
}

pub const SITES: [Site; 33] = [
    Site::MethodArgsSerialized,
    Site::PpttResourcesStandalone,
    Site::RhctIsaStandalone,
    Site::CximsStandalone,
    Site::SideCacheStandalone,
    Site::PackageElements,
    Site::PackageBuilderElements,
    Site::PathSegments,
    Site::PathSegmentsRooted,
    Site::MethodArgs,
    Site::ArgIndex,
    Site::LocalIndex,
    Site::FieldWidthNamed,
    Site::FieldWidthReserved,
    Site::PkgLengthInclusive,
    Site::PkgLengthRealBuffer,
    Site::AddrRange16,
    Site::AddrRange32,
    Site::AddrRange64,
    Site::PpttResources,
    Site::CximsMaps,
    Site::HmatSmbiosHandles,
    Site::RimtWires,
    Site::RimtRcMappings,
    Site::RimtPlatformName,
    Site::RimtPlatformMappings,
    Site::ViotNodeCount,
    Site::ViotHandleOffset,
    Site::SlitLocalities,
    Site::RhctIsaLength,
    Site::RhctHartOffsets,
    Site::RqscVendorData,
    Site::RqscResources,
];

impl Site {
    /// largest value the encoded field can represent for this site
    pub fn max(self) -> u64 {
        match self {
            Site::PackageElements | Site::PackageBuilderElements | Site::PathSegments | Site::PathSegmentsRooted => 255,
            Site::MethodArgs | Site::MethodArgsSerialized => 7,
            Site::PpttResourcesStandalone => 58,
            Site::RhctIsaStandalone => 65_525,
            Site::CximsStandalone => 255,
            Site::SideCacheStandalone => 65_535,
            Site::ArgIndex => 6,
            Site::LocalIndex => 7,
            Site::FieldWidthNamed | Site::FieldWidthReserved => (1 << 28) - 1,
            // content + 4 length bytes must stay below 2^28
            Site::PkgLengthInclusive => (1 << 28) - 5,
            // BufferData of n bytes: content = 5-byte size integer + n
            Site::PkgLengthRealBuffer => (1 << 28) - 5 - 5,
            // value = range size - 1 (max - min); the size field holds at most MAX
            Site::AddrRange16 => 0xffff - 1,
            Site::AddrRange32 => 0xffff_ffff - 1,
            Site::AddrRange64 => u64::MAX - 1,
            Site::PpttResources => 58,          // 20 + 4n <= 255
            Site::CximsMaps => 255,             // u8 count
            Site::HmatSmbiosHandles => 65_535,  // u16 count
            Site::RimtWires => 8_187,           // 32 + 8w <= 65535
            Site::RimtRcMappings => 3_275,      // 16 + 20m <= 65535
            Site::RimtPlatformName => 65_522,   // 12 + n + 1 <= 65535
            Site::RimtPlatformMappings => 3_276, // 13 + 20m <= 65535
            Site::ViotNodeCount => 65_535,      // u16 count
            Site::ViotHandleOffset => 4_092,    // 48 + 16k <= 65535: index of the last representable node
            Site::SlitLocalities => 65_535,     // 44 + n^2 <= u32::MAX
            Site::RhctIsaLength => 65_525,      // 8 + n + 1, padded to even, <= 65535
            Site::RhctHartOffsets => 16_380,    // 12 + 4n <= 65535
            Site::RqscVendorData => 65_527,     // 8 + n <= 65535
            Site::RqscResources => 3_275,       // 28 + 20k <= 65535
        }
    }
    /// (controls at or below the maximum, values above it)
    pub fn values(self, thorough: bool) -> (Vec<u64>, Vec<u64>) {
        let m = self.max();
        match self {
            Site::PackageElements | Site::PackageBuilderElements => (vec![0, 1, 254, 255], vec![256, 257, 300, 511, 512, 65_536]),
            Site::PathSegments | Site::PathSegmentsRooted => (vec![1, 2, 3, 254, 255], vec![256, 257, 258, 259, 260, 261, 511, 512, 513, 1000, 1279, 1280]),
            Site::MethodArgs | Site::MethodArgsSerialized => (vec![0, 1, 7], vec![8, 9, 10, 12, 15, 16, 17, 128, 255]),
            Site::RhctIsaStandalone => (vec![0, 1, m - 1, m], vec![m + 1, m + 2, 65_534, 65_535, 65_536, 70_000]),
            Site::SideCacheStandalone => (vec![0, m], vec![m + 1, m + 2, 70_000]),
            Site::ArgIndex => (vec![0, 6], vec![7, 8, 255]),
            Site::LocalIndex => (vec![0, 7], vec![8, 9, 255]),
            Site::FieldWidthNamed | Site::FieldWidthReserved => (vec![0, 63, m - 1, m], vec![m + 1, m + 2, 1 << 29, 1 << 32, u64::MAX - 1, u64::MAX]),
            Site::PkgLengthInclusive => (vec![0, 62, m - 1, m], vec![m + 1, m + 2, m + 3, m + 4, m + 5, 1 << 29, 1 << 32, (1 << 32) + 5, u64::MAX - 4]),
            Site::PkgLengthRealBuffer => {
                if thorough {
                    (vec![m], vec![m + 1, m + 5])
                } else {
                    (vec![], vec![])
                }
            }
            Site::AddrRange16 | Site::AddrRange32 | Site::AddrRange64 => (vec![0, 1, m - 1, m], vec![m + 1]),
            Site::SlitLocalities => (vec![0, 1, 255, 1000], vec![65_536, 65_537, 1 << 31, u32::MAX as u64]),
            Site::ViotNodeCount => (vec![0, 1, 4_100, m], vec![m + 1, m + 2]),
            Site::ViotHandleOffset => (vec![0, 1, m - 1, m], vec![m + 1, m + 2, 5_000]),
            Site::RhctHartOffsets => (vec![1, 2, m - 1, m], vec![m + 1, m + 2, m + 100, 65_536, 70_000]),
            Site::HmatSmbiosHandles => (vec![0, m], vec![m + 1, m + 2, 70_000, 131_072]),
            Site::RhctIsaLength => (vec![0, 1, m - 1, m], vec![m + 1, m + 2, 65_534, 65_535, 65_536, 70_000]),
            _ => (vec![0, 1, m - 1, m], vec![m + 1, m + 2, m + 100, 2 * m + 2, 65_536, 70_000]),
        }
    }
    pub fn name(self) -> String {
        format!("{:?}", self)
    }
}

#[allow(dead_code)]
fn p1(s: &str) -> PathCase {
    PathCase { rooted: false, segs: vec![s.to_string()] }
}

pub enum Outcome {
    Refused,
    /// bytes returned + a description of how they are (in)consistent: None = framing is fine
    Returned(Option<String>),
}

fn aml_framing(t: &Term, bytes: &[u8]) -> Option<String> {
    let mut arity = std::collections::HashMap::new();
    collect_arities(t, &mut arity);
    match crate::aml::parse::parse_all(bytes, &arity) {
        Err((off, why)) => Some(format!("does not parse: {} at {}", why, off)),
        Ok(got) => {
            let want = vec![norm(t)];
            if got == want {
                None
            } else {
                Some(format!("parses to a different tree: {}", got.first().and_then(|g| crate::aml::parse::first_diff(&want[0], g)).unwrap_or_else(|| "object count".into())))
            }
        }
    }
}

fn table_framing(k: Kind, img: &[u8], ops: &[Op]) -> Option<String> {
    let mut out = Vec::new();
    check_image(k, img, ops, ops.len(), &mut out);
    if super::common::le32(img, 4) as usize != img.len() {
        return Some(format!("table Length {} != {} bytes", super::common::le32(img, 4), img.len()));
    }
    out.first().map(|v| format!("{} {} {} {}", v.subject, v.kind, v.detail, v.info))
}

fn hdr() -> Hdr {
    Hdr { oem_id: *b"OEMIDX", oem_table_id: *b"TABLEID0", oem_rev: 1 }
}

fn run_table(kind: Kind, ctor: Ctor, ops: Vec<Op>) -> Outcome {
    let p = Program { kind, hdr: hdr(), ctor, ops: ops.clone() };
    let mut last: Option<Vec<u8>> = None;
    let n = ops.len();
    let r = drive_with(&p, &ops, &|s, t| s == t, &mut |o: &Obs| {
        if o.step == n {
            last = Some(o.image.to_vec());
        }
    });
    if r.ctor_refused || !r.refused_ops.is_empty() {
        return Outcome::Refused;
    }
    let img = last.expect("final image");
    Outcome::Returned(table_framing(kind, &img, &ops))
}

/// exercise one site with one value
pub fn exercise(site: Site, v: u64) -> Outcome {
    let r = catch_unwind(AssertUnwindSafe(|| -> Outcome {
        match site {
            Site::PackageElements | Site::PackageBuilderElements => {
                let e: Vec<Term> = (0..v).map(|i| Term::U8(i as u8)).collect();
                let t = if site == Site::PackageElements { Term::Package(e) } else { Term::PackageB(e) };
                let b = emit(&t);
                // the count byte must equal the number of elements that follow
                let framing = match pkglen_decode(&b[1..]) {
                    Ok((_, used)) => {
                        let count = b[1 + used] as u64;
                        if count != v {
                            Some(format!("NumElements byte {} for {} elements", count, v))
                        } else {
                            aml_framing(&t, &b)
                        }
                    }
                    Err(e) => Some(e.to_string()),
                };
                Outcome::Returned(framing)
            }
            Site::PathSegments | Site::PathSegmentsRooted => {
                let p = PathCase { rooted: site == Site::PathSegmentsRooted, segs: (0..v).map(|i| format!("S{:03}", i % 1000)).collect() };
                let mut b = Vec::new();
                aml::Path::new(&p.text()).to_aml_bytes(&mut b);
                let framing = match crate::props::c09::decode_namestring(&b) {
                    Ok((_, _, segs, used)) if segs.len() as u64 == v && used == b.len() => None,
                    Ok((_, _, segs, used)) => Some(format!("SegCount decodes to {} segments ({} of {} bytes) for {} segments", segs.len(), used, b.len(), v)),
                    Err(e) => Some(e.to_string()),
                };
                Outcome::Returned(framing)
            }
            Site::MethodArgs | Site::MethodArgsSerialized => {
                let ser = site == Site::MethodArgsSerialized;
                let mut b = Vec::new();
                aml::Method::new("MET0".into(), v as u8, ser, vec![]).to_aml_bytes(&mut b);
                let flags = b[b.len() - 1];
                Outcome::Returned(if (flags & 7) as u64 == v && flags & 0xf0 == 0 && (flags & 8 != 0) == ser { None } else { Some(format!("method flags {:#04x} encode {} arguments (serialized={}) for {} (serialized={})", flags, flags & 7, flags & 8 != 0, v, ser)) })
            }
            Site::PpttResourcesStandalone => {
                // the node is a public Aml object: serialised on its own it must be refused or framed
                let mut t = acpi_tables::pptt::PPTT::new(*b"OEMIDX", *b"TABLEID0", 1);
                let c = t.add_cache(acpi_tables::pptt::CacheNodeBuilder::default().to_node());
                let mut n = acpi_tables::pptt::ProcessorNode::new(None, 1);
                for _ in 0..v {
                    n = n.add_cache(&c);
                }
                let b = ser(&n);
                Outcome::Returned(if b[1] as usize == b.len() { None } else { Some(format!("processor node length byte {} for {} bytes", b[1], b.len())) })
            }
            Site::RhctIsaStandalone => {
                let n = acpi_tables::rhct::IsaStringNode::new(static_text(v as usize));
                let b = ser(&n);
                let lf = u16::from_le_bytes([b[2], b[3]]) as usize;
                let sl = u16::from_le_bytes([b[6], b[7]]) as usize;
                Outcome::Returned(if lf == b.len() && sl == v as usize + 1 { None } else { Some(format!("ISA node length field {} / string length field {} for a {}-byte node with a {}-byte string", lf, sl, b.len(), v)) })
            }
            Site::CximsStandalone => {
                let mut x = acpi_tables::cedt::XorInterleaveMath::new(mk_gran(1));
                for i in 0..v {
                    x.add_xormap(i);
                }
                let b = ser(&x);
                let lf = u16::from_le_bytes([b[2], b[3]]) as usize;
                Outcome::Returned(if lf == b.len() && b[7] as u64 == v { None } else { Some(format!("CXIMS length field {} count byte {} for {} bytes / {} maps", lf, b[7], b.len(), v)) })
            }
            Site::SideCacheStandalone => {
                let c = mk_side_cache(1, 2, 1, 1, 1, 1, 64, &(0..v).map(|i| i as u16).collect::<Vec<_>>());
                let b = ser(&c);
                let n = u16::from_le_bytes([b[30], b[31]]) as u64;
                Outcome::Returned(if n == v && b.len() as u64 == 32 + 2 * v { None } else { Some(format!("side cache handle count field {} for {} handles", n, v)) })
            }
            Site::ArgIndex => {
                let mut b = Vec::new();
                aml::Arg(v as u8).to_aml_bytes(&mut b);
                Outcome::Returned(if b == [0x68 + v as u8] && v <= 6 { None } else { Some(format!("Arg{} emitted as opcode {:02x?}", v, b)) })
            }
            Site::LocalIndex => {
                let mut b = Vec::new();
                aml::Local(v as u8).to_aml_bytes(&mut b);
                Outcome::Returned(if b == [0x60 + v as u8] && v <= 7 { None } else { Some(format!("Local{} emitted as opcode {:02x?}", v, b)) })
            }
            Site::FieldWidthNamed | Site::FieldWidthReserved => {
                let e = if site == Site::FieldWidthNamed { aml::FieldEntry::Named(*b"ABCD", v as usize) } else { aml::FieldEntry::Reserved(v as usize) };
                let mut b = Vec::new();
                aml::Field::new("FLD0".into(), aml::FieldAccessType::Any, aml::FieldLockRule::NoLock, aml::FieldUpdateRule::Preserve, vec![e]).to_aml_bytes(&mut b);
                let (_, used) = pkglen_decode(&b[2..]).unwrap_or((0, 1));
                let skip = 2 + used + 5 + if site == Site::FieldWidthNamed { 4 } else { 1 };
                let framing = match pkglen_decode(&b[skip..]) {
                    Ok((w, u)) if w as u64 == v && skip + u == b.len() => None,
                    Ok((w, _)) => Some(format!("field width decodes to {} for {}", w, v)),
                    Err(e) => Some(e.to_string()),
                };
                Outcome::Returned(framing)
            }
            Site::PkgLengthInclusive => {
                let enc = aml::verif_create_pkg_length(v as usize, true);
                let framing = match pkglen_decode(&enc) {
                    Ok((w, u)) if u == enc.len() && (w as u64) == v.wrapping_add(u as u64) => None,
                    Ok((w, _)) => Some(format!("PkgLength decodes to {} for content {}", w, v)),
                    Err(e) => Some(e.to_string()),
                };
                Outcome::Returned(framing)
            }
            Site::PkgLengthRealBuffer => {
                let mut b = Vec::new();
                aml::BufferData::new(vec![0xab; v as usize]).to_aml_bytes(&mut b);
                let framing = match pkglen_decode(&b[1..]) {
                    Ok((w, _)) if w == b.len() - 1 => None,
                    Ok((w, _)) => Some(format!("PkgLength decodes to {} for {} bytes to the end", w, b.len() - 1)),
                    Err(e) => Some(e.to_string()),
                };
                Outcome::Returned(framing)
            }
            Site::AddrRange16 | Site::AddrRange32 | Site::AddrRange64 => {
                let width = match site {
                    Site::AddrRange16 => 16,
                    Site::AddrRange32 => 32,
                    _ => 64,
                };
                // value = max - min, with min = 0 for the overflow case and 1 otherwise
                let mask = if width == 64 { u64::MAX } else { (1u64 << width) - 1 };
                let (min, max) = if v == mask { (0, mask) } else { (mask - v, mask) };
                let r = Res::AddrSpace { width, ty: AsType::Io, min, max, translation: None };
                let mut b = Vec::new();
                crate::aml::build::with_res(&r, &mut |o| o.to_aml_bytes(&mut b));
                let w = (width / 8) as usize;
                let len_field = (0..w).fold(0u128, |a, i| a | (b[b.len() - w + i] as u128) << (8 * i));
                let want = (max - min) as u128 + 1;
                Outcome::Returned(if len_field == want { None } else { Some(format!("range length field {:#x} for a range of {:#x} addresses", len_field, want)) })
            }
            Site::PpttResources => {
                let ops = vec![Op::PpttCache { sets: vec![] }, Op::PpttProc { parent: None, id: 1, flags: vec![], res: vec![0; v as usize], raw_flags: None }];
                run_table(Kind::Pptt, Ctor::Plain, ops)
            }
            Site::CximsMaps => run_table(Kind::Cedt, Ctor::Plain, vec![Op::Cxims { gran: 1, maps: (0..v).collect() }]),
            Site::HmatSmbiosHandles => run_table(
                Kind::Hmat,
                Ctor::Plain,
                vec![Op::HmatCache { pd: 1, size: 2, total: 1, level: 1, assoc: 1, policy: 1, line: 64, handles: (0..v).map(|i| i as u16).collect() }],
            ),
            Site::RimtWires => run_table(Kind::Rimt, Ctor::Plain, vec![Op::RimtIommu { id: 1, base: Some(0x1000), pci: None, prox: None, wires: Some((0..v).map(|i| (i as u32, true, false, 1)).collect()) }]),
            Site::RimtRcMappings | Site::RimtPlatformMappings => {
                let maps: Vec<IdMap> = (0..v).map(|i| IdMap { src: i as u32, dst: 0, n: 1, iommu: 0, ats: false, pri: false, rciep: false }).collect();
                let dev = if site == Site::RimtRcMappings { Op::RimtRc { id: 2, seg: 0, ats: false, pri: false, maps: Some(maps) } } else { Op::RimtPlat { id: 2, name_len: 0, maps: Some(maps) } };
                run_table(Kind::Rimt, Ctor::Plain, vec![Op::RimtIommu { id: 1, base: Some(0x1000), pci: None, prox: None, wires: None }, dev])
            }
            Site::RimtPlatformName => run_table(Kind::Rimt, Ctor::Plain, vec![Op::RimtPlat { id: 3, name_len: v as u32, maps: None }]),
            Site::ViotNodeCount => {
                // one IOMMU (the only handle needed) followed by v - 1 endpoints
                let mut ops = vec![Op::ViotMmioIommu(0x1000)];
                for i in 1..v {
                    ops.push(Op::ViotMmioEp { id: i as u32, base: i << 12, h: 0 });
                }
                if v == 0 {
                    ops.clear();
                }
                run_table(Kind::Viot, Ctor::Plain, ops)
            }
            Site::ViotHandleOffset => {
                // v = index of the node whose handle is then used by an endpoint
                let mut ops: Vec<Op> = (0..=v).map(|i| Op::ViotMmioIommu(i << 12)).collect();
                ops.push(Op::ViotMmioEp { id: 1, base: 2, h: v as u32 });
                let p = Program { kind: Kind::Viot, hdr: hdr(), ctor: Ctor::Plain, ops: ops.clone() };
                let mut last: Option<Vec<u8>> = None;
                let n = ops.len();
                let r = drive_with(&p, &ops, &|s, t| s == t, &mut |o: &Obs| {
                    if o.step == n {
                        last = Some(o.image.to_vec());
                    }
                });
                if !r.refused_ops.is_empty() {
                    return Outcome::Refused;
                }
                let img = last.unwrap();
                let node_off = 48 + 16 * v;
                let ep = img.len() - 24;
                let field = u16::from_le_bytes([img[ep + 16], img[ep + 17]]) as u64;
                Outcome::Returned(if field == node_off { None } else { Some(format!("endpoint output-node field {} for a node at offset {}", field, node_off)) })
            }
            Site::SlitLocalities => run_table(Kind::Slit, Ctor::Slit(v as u32), vec![]),
            Site::RhctIsaLength => run_table(Kind::Rhct, Ctor::Rhct(1), vec![Op::RhctIsa(v as u32)]),
            Site::RhctHartOffsets => run_table(Kind::Rhct, Ctor::Rhct(1), vec![Op::RhctIsa(4), Op::RhctCmo(1, 2, 3), Op::RhctHart { uid: 1, isa: 0, cmos: vec![0; (v - 1) as usize] }]),
            Site::RqscVendorData => {
                let r = rqsc::ResourceStructure::new(rqsc::ResourceType::Cache, 0, rqsc::ResourceID::VendorSpecific(0x80, vec![0x5a; v as usize]));
                let b = ser(&r);
                let lf = u16::from_le_bytes([b[2], b[3]]) as usize;
                Outcome::Returned(if lf == b.len() { None } else { Some(format!("resource length field {} for {} bytes", lf, b.len())) })
            }
            Site::RqscResources => run_table(
                Kind::Rqsc,
                Ctor::Plain,
                vec![Op::RqscCtl {
                    ty: 0,
                    reg: GasV { pci: false, space: 0, width: 64, offset: 0, access: 4, addr: 0x1000, dev: 0, func: 0, reg: 0 },
                    rcid: 1,
                    mcid: 2,
                    flags: 0,
                    res: (0..v).map(|i| RqscRes { ty: 0, flags: 0, id: RqscId::Cache(i as u32) }).collect(),
                }],
            ),
        }
    }));
    match r {
        Ok(o) => o,
        Err(_) => Outcome::Refused,
    }
}

/// sites whose generic driver cannot carry values beyond the op's own field width
fn direct_exercise(site: Site, v: u64) -> Option<Outcome> {
    match site {
        Site::RimtPlatformName if v > 0xffff_ffff => Some(
            match catch_unwind(AssertUnwindSafe(|| {
                let mut t = acpi_tables::rimt::RIMT::new(*b"OEMIDX", *b"TABLEID0", 1);
                t.add_platform(acpi_tables::rimt::Platform::new(1, text_of(v as usize), None));
                ser(&t)
            })) {
                Err(_) => Outcome::Refused,
                Ok(img) => Outcome::Returned(table_framing(Kind::Rimt, &img, &[]).or(Some("platform device with an over-long name accepted".into()))),
            },
        ),
        Site::RhctIsaLength if v > 0xffff_ffff => Some(
            match catch_unwind(AssertUnwindSafe(|| {
                let mut t = acpi_tables::rhct::RHCT::new(*b"OEMIDX", *b"TABLEID0", 1, 1);
                t.add_isa_string(static_text(v as usize));
                ser(&t)
            })) {
                Err(_) => Outcome::Refused,
                Ok(img) => Outcome::Returned(table_framing(Kind::Rhct, &img, &[]).or(Some("ISA string node with an over-long string accepted".into()))),
            },
        ),
        _ => None,
    }
}

pub fn check(site: Site, v: u64) -> Option<Violation> {
    let above = v > site.max();
    let out = direct_exercise(site, v).unwrap_or_else(|| exercise(site, v));
    let profile = if overflow_checks_on() { "overflow-checks-on" } else { "overflow-checks-off" };
    match (above, out) {
        (true, Outcome::Refused) => None,
        (true, Outcome::Returned(f)) => Some(Violation::new(
            "C18",
            &site.name(),
            "not-refused",
            format!("value>{} build:{}", site.max(), profile),
            format!("value={} returned bytes: {}", v, f.unwrap_or_else(|| "(framing happens to be consistent)".into())),
        )),
        (false, Outcome::Refused) => Some(Violation::new("C18", &site.name(), "refused-valid", format!("value<={} build:{}", site.max(), profile), format!("value={}", v))),
        (false, Outcome::Returned(Some(f))) => Some(Violation::new("C18", &site.name(), "framing-at-maximum", format!("build:{}", profile), format!("value={} {}", v, trunc(f, 300)))),
        (false, Outcome::Returned(None)) => None,
    }
}

/// Objects that stay in the caller's hands after a refused (panicking) mutator: serialised again
/// they must still be what the accepted calls built -- the refusal leaves no trace, so no count or
/// length field can disagree with the content that follows. (before, after); None = not refused
/// here (the site sweep above judges what was returned).
pub const AFTER_REFUSAL: [&str; 12] = [
    "PackageBuilder::new/256th", "PackageBuilder::default/256th", "PackageBuilder/Arg7@0", "PackageBuilder/Arg7@3", "PackageBuilder/Local8@254",
    "MemorySideCache/65536th", "XorInterleaveMath/256th", "QoSController/oversize-resource@0", "QoSController/oversize-resource@3", "QoSController/length-overflow",
    "SystemLocality/index-outside", "ProcessorNode-in-PPTT/refused-then-next",
];

fn refused<T>(f: impl FnOnce() -> T) -> bool {
    catch_unwind(AssertUnwindSafe(f)).is_err()
}

pub fn after_refusal(name: &str) -> Option<(Vec<u8>, Vec<u8>)> {
    let gas = GasV { pci: false, space: 0, width: 64, offset: 0, access: 4, addr: 0x1000, dev: 0, func: 0, reg: 0 };
    let small = |i: u32| rqsc::ResourceStructure::new(rqsc::ResourceType::Cache, i as u16, rqsc::ResourceID::Cache(rqsc::CacheResource::new(i)));
    let vendor = |n: usize| rqsc::ResourceStructure::new(rqsc::ResourceType::Memory, 7, rqsc::ResourceID::VendorSpecific(0x80, vec![0x5a; n]));
    match name {
        "PackageBuilder::new/256th" | "PackageBuilder::default/256th" => {
            let mut b = if name.contains("new") { aml::PackageBuilder::new() } else { aml::PackageBuilder::default() };
            for i in 0..255u32 {
                b.add_element(&(i as u8));
            }
            let before = ser(&b);
            refused(|| b.add_element(&0x77u8)).then(|| (before, ser(&b)))
        }
        "PackageBuilder/Arg7@0" | "PackageBuilder/Arg7@3" | "PackageBuilder/Local8@254" => {
            let k: u32 = name.rsplit('@').next().unwrap().parse().unwrap();
            let mut b = aml::PackageBuilder::new();
            for i in 0..k {
                b.add_element(&(0x1000u16 + i as u16));
            }
            let before = ser(&b);
            // both children assert before they emit their first byte
            let r = if name.contains("Arg7") { refused(|| b.add_element(&aml::Arg(7))) } else { refused(|| b.add_element(&aml::Local(8))) };
            // and the builder goes on working
            b.add_element(&0x42u8);
            let mut want = aml::PackageBuilder::new();
            for i in 0..k {
                want.add_element(&(0x1000u16 + i as u16));
            }
            want.add_element(&0x42u8);
            let _ = before;
            r.then(|| (ser(&want), ser(&b)))
        }
        "MemorySideCache/65536th" => {
            let hs: Vec<u16> = (0..65_535u32).map(|i| i as u16).collect();
            let mut c = mk_side_cache(1, 2, 1, 1, 1, 1, 64, &hs);
            let before = ser(&c);
            refused(|| c.add_smbios_handle(0x7777)).then(|| (before, ser(&c)))
        }
        "XorInterleaveMath/256th" => {
            let mut x = acpi_tables::cedt::XorInterleaveMath::new(mk_gran(1));
            for i in 0..255u64 {
                x.add_xormap(i);
            }
            let before = ser(&x);
            refused(|| x.add_xormap(0x7777)).then(|| (before, ser(&x)))
        }
        "QoSController/oversize-resource@0" | "QoSController/oversize-resource@3" => {
            let k: u32 = name.rsplit('@').next().unwrap().parse().unwrap();
            let mut c = mk_rqsc_ctl(0, &gas, 1, 2, 0, &[]);
            for i in 0..k {
                c.add_resource(small(i));
            }
            let before = ser(&c);
            // a resource that is valid on its own but cannot fit the controller's 16-bit length
            let big = vendor(65_500);
            refused(|| c.add_resource(big)).then(|| (before, ser(&c)))
        }
        "QoSController/length-overflow" => {
            let mut c = mk_rqsc_ctl(1, &gas, 1, 2, 0, &[]);
            c.add_resource(vendor(65_000));
            let before = ser(&c);
            let big = vendor(600);
            refused(|| c.add_resource(big)).then(|| (before, ser(&c)))
        }
        "SystemLocality/index-outside" => {
            use acpi_tables::hmat;
            let mut s = hmat::SystemLocality::new(hmat::LocalityType::Memory, hmat::DataType::ReadLatency, hmat::MinTransferSize::Size64b, 1000, 2, 3);
            s.set_initiator_value(0, 11);
            s.set_target_value(2, 22);
            s.set_entry_value(1, 2, 33);
            let before = ser(&s);
            let r = refused(|| s.set_initiator_value(2, 99)) & refused(|| s.set_target_value(3, 99)) & refused(|| s.set_entry_value(2, 0, 99));
            r.then(|| (before, ser(&s)))
        }
        "ProcessorNode-in-PPTT/refused-then-next" => {
            use acpi_tables::pptt;
            // a processor node with too many private resources is refused by the table; the table then
            // takes an ordinary node: its image must be that of a table that never saw the refused one
            let build = |with_refused: bool| -> Option<Vec<u8>> {
                let mut t = pptt::PPTT::new(*b"OEMIDX", *b"TABLEID0", 1);
                let c = t.add_cache(pptt::CacheNodeBuilder::default().to_node());
                if with_refused {
                    let r = refused(|| {
                        let mut n = pptt::ProcessorNode::new(None, 9);
                        for _ in 0..59 {
                            n = n.add_cache(&c);
                        }
                        t.add_processor(n);
                    });
                    if !r {
                        return None;
                    }
                }
                let p = t.add_processor(pptt::ProcessorNode::new(None, 1).add_cache(&c));
                t.add_processor(pptt::ProcessorNode::new(Some(&p), 2));
                Some(ser(&t))
            };
            let want = build(false)?;
            build(true).map(|got| (want, got))
        }
        _ => None,
    }
}

pub fn check_after_refusal(name: &str) -> Option<Violation> {
    let r = catch_unwind(AssertUnwindSafe(|| after_refusal(name)));
    let profile = if overflow_checks_on() { "overflow-checks-on" } else { "overflow-checks-off" };
    match r {
        Err(_) => Some(Violation::new("C18", name, "unusable-after-refusal", format!("build:{}", profile), "the object panicked when used again after a refused call".into())),
        Ok(Some((want, got))) if want != got => {
            let at = want.iter().zip(got.iter()).position(|(a, b)| a != b).unwrap_or(want.len().min(got.len()));
            Some(Violation::new("C18", name, "changed-by-refused-call", format!("build:{}", profile), format!("len {} -> {}; first difference at byte {}", want.len(), got.len(), at)))
        }
        _ => None,
    }
}

pub fn run(ctx: &Ctx) {
    ctx.set_rule("for every encoded count/length field with a caller-controlled source (33 sites: package / package-builder elements, path segments, method arguments, Arg/Local index, named and reserved field widths, PkgLength >= 2^28 through the encoder and (thorough) a real 256 MiB buffer, word/dword/qword address ranges, PPTT private resources, CXIMS maps, HMAT SMBIOS handles, RIMT wires / id mappings / platform name, VIOT node count and handle offset, SLIT localities, RHCT ISA string and hart-info offsets, RQSC vendor data and resources): values at the field maximum (must be accepted and framed correctly, judged by the C03/C06 oracles) and above it (maximum+1, +2, far beyond; must panic), in this build and, through a second binary, in the build with the other overflow-check setting. Objects that stay in the caller's hands after a refused call (package builder, side cache, CXIMS, QoS controller, locality structure, a PPTT that refused a node) are serialised again and must be byte-identical to what the accepted calls built. A value above the maximum that returns bytes is a violation; the framing oracles then state which field disagrees. Non-trivial = a case above the field maximum (the at-maximum cases are controls); distinct = distinct (site, value, build).");
    ctx.assume("sizes that need >= 4 GiB of real data (u32 table Length overflow, SLIT with 65535 localities) are out of reach and not claimed");
    ctx.assume(&format!("this process: overflow checks {}", if overflow_checks_on() { "ON" } else { "OFF" }));
    let mut jobs: Vec<(Site, u64)> = Vec::new();
    let mut above = 0u64;
    for s in SITES {
        let (mut ok, mut bad) = s.values(!ctx.quick());
        if !ctx.quick() && !matches!(s, Site::PkgLengthRealBuffer | Site::SlitLocalities) {
            // thorough: every value in a band around the maximum, and a spread of values beyond it
            let m = s.max();
            ok.extend((m.saturating_sub(6)..=m).filter(|v| !ok.contains(v)).collect::<Vec<_>>());
            let cheap = m < (1 << 20);
            // (sites whose every value costs tens of thousands of adds get a narrower band)
            let heavy = (60_000..(1 << 20)).contains(&m);
            let mut extra: Vec<u64> = (1..=if heavy { 8u64 } else { 24 }).filter_map(|d| m.checked_add(d)).collect();
            if cheap && !heavy {
                extra.extend([m + 255, m + 256, m + 257, 2 * m, 2 * m + 1, 3 * m + 7, 4 * m + 3, 100_000, 131_071, 131_072, 200_000]);
            }
            // sites whose parameter is a u8 / whose value is bounded by the operand type
            let cap = match s {
                Site::MethodArgs | Site::MethodArgsSerialized | Site::ArgIndex | Site::LocalIndex => 255,
                Site::AddrRange16 | Site::AddrRange32 | Site::AddrRange64 => m + 1,
                _ => u64::MAX,
            };
            extra.retain(|v| *v > m && *v <= cap && !bad.contains(v));
            extra.sort();
            extra.dedup();
            bad.extend(extra);
        }
        for v in ok {
            jobs.push((s, v));
        }
        for v in bad {
            jobs.push((s, v));
            above += 1;
        }
    }
    let res: Vec<((Site, u64), Violation)> = jobs.par_iter().filter_map(|(s, v)| check(*s, *v).map(|x| ((*s, *v), x))).collect();
    ctx.add_evals(jobs.len() as u64);
    ctx.add_engine("directed:c18.sites", jobs.len() as u64);
    let prof = build_profile();
    ctx.add_nontrivial(jobs.iter().filter(|(s, v)| *v > s.max()).map(|j| fingerprint(&(j.0, j.1, prof))));
    ctx.add_class(&format!("above-maximum:{}", prof), above);
    for s in SITES {
        ctx.add_class(&format!("site:{}", s.name()), 1);
    }
    ctx.add_sample(json!({"site": "PackageElements", "value": 256, "expect": "panic in both builds"}));
    ctx.add_sample(json!({"site": "AddrRange16", "value": 65535, "meaning": "min=0 max=0xffff: 65536 addresses do not fit the 16-bit length field", "expect": "panic"}));
    let mut seen = std::collections::HashSet::new();
    for ((s, v), x) in res {
        if seen.insert(x.sig()) {
            ctx.report("c18.site", json!({"case": {"site": s.name(), "value": v, "profile": prof}}), vec![x]);
        }
    }
    // objects used again after a refused call
    let ar: Vec<(&str, Option<Violation>)> = AFTER_REFUSAL.par_iter().map(|n| (*n, check_after_refusal(n))).collect();
    ctx.add_evals(ar.len() as u64);
    ctx.add_engine("directed:c18.after-refusal", ar.len() as u64);
    ctx.add_nontrivial(AFTER_REFUSAL.iter().map(|n| fingerprint(&(*n, prof))));
    ctx.add_class(&format!("after-refusal:{}", prof), ar.len() as u64);
    for (n, x) in ar {
        if let Some(x) = x {
            ctx.report("c18.after-refusal", json!({"case": {"after_refusal": n, "profile": prof}}), vec![x]);
        }
    }
    // the other build profile, as a child process
    if std::env::var("ACPIV_CHILD").is_err() {
        match std::env::var("ACPIV_CHK_BIN") {
            Ok(bin) if std::path::Path::new(&bin).exists() => {
                let out = std::process::Command::new(&bin)
                    .args(["check", "C18", if ctx.quick() { "quick" } else { "thorough" }])
                    .env("ACPIV_CHILD", "1")
                    .env("VERIF_SEED", ctx.seed.to_string())
                    .env("ACPIV_ROOT", &ctx.root)
                    .output();
                match out {
                    Ok(o) => {
                        let txt = String::from_utf8_lossy(&o.stdout);
                        match txt.lines().find_map(|l| l.strip_prefix("CHILD-SUMMARY ")) {
                            Some(js) => {
                                let v: serde_json::Value = serde_json::from_str(js).unwrap_or(json!({}));
                                ctx.merge_child(&v);
                                ctx.note("second build profile (overflow checks on) ran as a child process and was merged".into());
                            }
                            None => ctx.report("c18.child", json!({}), vec![Violation::new("C18", "harness", "harness-panic", "child run produced no summary".into(), trunc(txt.to_string(), 300))]).then_some(()).unwrap_or(()),
                        }
                    }
                    Err(e) => {
                        ctx.report("c18.child", json!({}), vec![Violation::new("C18", "harness", "harness-panic", format!("cannot run the chk binary: {}", e), String::new())]);
                    }
                }
            }
            _ => {
                ctx.report("c18.child", json!({}), vec![Violation::new("C18", "harness", "harness-panic", "ACPIV_CHK_BIN not set: the overflow-checks build was not exercised (use ./check)".into(), String::new())]);
            }
        }
    }
}

pub fn replay(case: &serde_json::Value) -> Vec<Violation> {
    if let Some(n) = case["after_refusal"].as_str() {
        return check_after_refusal(n).into_iter().collect();
    }
    let name = case["site"].as_str().unwrap_or("");
    let v = case["value"].as_u64().unwrap_or(0);
    let want_profile = case["profile"].as_str().unwrap_or("");
    let _ = want_profile; // informational: both build profiles replay every stored case
    SITES.iter().filter(|s| s.name() == name).filter_map(|s| check(*s, v)).collect()
}
