//! C11 — option builders set exactly their own specification bit, independently.

use crate::engine::*;
use crate::tables::drive::*;
use crate::tables::types::*;
use acpi_tables::{fadt, madt, rimt, srat, tpm2};
use rayon::prelude::*;
use serde_json::json;
use std::collections::{BTreeSet, HashMap};

type Build = Box<dyn Fn(&[usize]) -> Vec<u8> + Sync + Send>;

pub struct Spec {
    pub name: String,
    pub opts: Vec<&'static str>,
    pub build: Build,
    /// per option: the specification bits it must set: (offset, width, mask)
    pub bits: Vec<Vec<(usize, usize, u64)>>,
    /// per option: value fields it governs besides its bits: (offset, len)
    pub governs: Vec<Vec<(usize, usize)>>,
    /// every flag/attribute field of the structure with its option-independent base value
    pub fields: Vec<(usize, usize, u64)>,
    /// bytes that legitimately follow any change (table checksum)
    pub ignore: Vec<usize>,
}

fn rd(b: &[u8], off: usize, w: usize) -> u64 {
    (0..w).fold(0u64, |a, i| a | (b[off + i] as u64) << (8 * i))
}

const H: ([u8; 6], [u8; 8], u32) = (*b"OEMIDX", *b"TABLEID0", 0x0102_0304);

fn bdf() -> Bdf {
    Bdf { seg: 0x1234, bus: 0x56, dev: 0x1f, func: 7 }
}
const GASV: GasV = GasV { pci: false, space: 1, width: 0x20, offset: 0x08, access: 3, addr: 0x1122_3344_5566_7788, dev: 0, func: 0, reg: 0 };
fn gasv() -> GasV {
    GASV
}

/// a FADT builder whose every non-flag field is non-zero
fn fadt_context() -> fadt::FADTBuilder {
    let mut b = fadt::FADTBuilder::new(H.0, H.1, H.2);
    for i in 0..42u8 {
        if i == 35 {
            continue; // the flags dword itself
        }
        b = apply_fadt(b, &FadtSet::Field(i, 0x1112_1314_1516_1718u64.wrapping_mul(i as u64 + 3) | 0x0101_0101_0101_0101));
    }
    for i in 0..11u8 {
        b = apply_fadt(b, &FadtSet::FieldGas(i, gasv()));
    }
    b
}

pub fn specs() -> Vec<Spec> {
    let mut v: Vec<Spec> = Vec::new();
    // FADT builder calls next to each other: each may touch only its own fields
    v.push(Spec {
        name: "FADT/builders".into(),
        opts: vec!["acpi_enable", "acpi_disable", "dsdt_32", "dsdt_64", "firmware_ctrl_32", "firmware_ctrl_64", "gpe_info", "preferred_pm_profile", "flag:HwReducedAcpi", "flag:Wbinvd", "flag:ResetRegSup"],
        build: Box::new(|seq| {
            let mut b = fadt_context();
            for o in seq {
                b = match o {
                    0 => b.acpi_enable(),
                    1 => b.acpi_disable(),
                    2 => b.dsdt_32(0xa1a2_a3a4),
                    3 => b.dsdt_64(0xb1b2_b3b4_b5b6_b7b8),
                    4 => b.firmware_ctrl_32(0xc1c2_c3c4),
                    5 => b.firmware_ctrl_64(0xd1d2_d3d4_d5d6_d7d8),
                    6 => b.gpe_info(0xe1e2_e3e4, 0xf1f2_f3f4, 0x51, 0x52, 0x53),
                    7 => b.preferred_pm_profile(fadt::PmProfile::Tablet),
                    8 => b.flag(fadt::Flags::HwReducedAcpi),
                    9 => b.flag(fadt::Flags::Wbinvd),
                    _ => b.flag(fadt::Flags::ResetRegSup),
                };
            }
            ser(&b.finalize())
        }),
        bits: vec![vec![], vec![], vec![], vec![], vec![], vec![], vec![], vec![], vec![(112, 4, 1 << 20)], vec![(112, 4, 1)], vec![(112, 4, 1 << 10)]],
        governs: vec![
            vec![(52, 2)],
            vec![(52, 2)],
            vec![(40, 4), (140, 8)],
            vec![(40, 4), (140, 8)],
            vec![(36, 4), (132, 8)],
            vec![(36, 4), (132, 8)],
            vec![(80, 8), (92, 3)],
            vec![(45, 1)],
            vec![],
            vec![],
            vec![],
        ],
        fields: vec![(112, 4, 0)],
        ignore: vec![9],
    });
    // FADT flags (ACPI 6.5 Table 5.10): bit i for the first 22, then the 2-bit
    // persistent-CPU-caches field at bits 23:22
    v.push(Spec {
        name: "FADT/flags".into(),
        opts: vec![
            "Wbinvd", "WbinvdFlush", "ProcC1", "PLvl2Up", "PwrButton", "SlpButton", "FixRtc", "RtcS4", "TmrValExt", "DckCap", "ResetRegSup", "SealedCase", "Headless", "CpuSwSlp", "PciExpWak",
            "UsePlatformClock", "S4RtcStsValid", "RemotePowerOnCapable", "ForceApicClusterModel", "ForceApicPhysicalDestinationMode", "HwReducedAcpi", "LowPowerS0IdleCapable",
            "PersistentCpuCachesNotReported", "PersistentCpuCachesNotPersistent", "PersistentCpuCachesArePersistent",
        ],
        build: Box::new(|seq| {
            // context: every other field already holds a non-zero value, so that an option
            // disturbing anything outside its own bit is visible
            let mut b = fadt_context();
            for o in seq {
                b = b.flag(FADT_FLAGS[*o]);
            }
            ser(&b.finalize())
        }),
        bits: (0..25u32).map(|i| vec![(112, 4, if i < 22 { 1u64 << i } else { ((i - 22) as u64) << 22 })]).collect(),
        governs: vec![vec![]; 25],
        fields: vec![(112, 4, 0)],
        ignore: vec![9],
    });
    v.push(Spec {
        name: "SRAT/memory-affinity".into(),
        opts: vec!["enabled", "hotpluggable", "nonvolatile"],
        build: Box::new(|seq| {
            let f: Vec<u8> = seq.iter().map(|x| *x as u8).collect();
            ser(&mk_srat_mem(0x0a0b_0c0d, 0x1122_3344_5566_7788, 0x99aa_bbcc_ddee_ff00, &f))
        }),
        bits: (0..3).map(|i| vec![(28, 4, 1u64 << i)]).collect(),
        governs: vec![vec![]; 3],
        fields: vec![(28, 4, 0)],
        ignore: vec![],
    });
    for acpi in [true, false] {
        v.push(Spec {
            name: format!("SRAT/generic-initiator/{}", if acpi { "acpi-handle" } else { "pci-handle" }),
            opts: vec!["enabled", "architectural"],
            build: Box::new(move |seq| {
                let f: Vec<u8> = seq.iter().map(|x| *x as u8).collect();
                let a = if acpi { Some((*b"ACPI0007", [1, 2, 3, 4])) } else { None };
                ser(&mk_srat_gi(0x0a0b_0c0d, &a, &bdf(), &f))
            }),
            bits: (0..2).map(|i| vec![(24, 4, 1u64 << i)]).collect(),
            governs: vec![vec![]; 2],
            fields: vec![(24, 4, 0)],
            ignore: vec![],
        });
    }
    v.push(Spec {
        name: "SRAT/rintc-affinity".into(),
        opts: vec!["enabled"],
        build: Box::new(|seq| {
            let mut r = srat::RintcAffinity::new([1, 2, 3, 4], 0x0a0b_0c0d).proximity_domain(0x5566_7788);
            for _ in seq {
                r = r.enabled();
            }
            ser(&r)
        }),
        bits: vec![vec![(12, 4, 1)]],
        governs: vec![vec![]],
        fields: vec![(12, 4, 0)],
        ignore: vec![],
    });
    v.push(Spec {
        name: "PPTT/processor".into(),
        opts: vec!["physical", "valid", "thread", "leaf", "identical"],
        build: Box::new(|seq| {
            let f: Vec<u8> = seq.iter().map(|x| *x as u8).collect();
            ser(&mk_proc_node(&None, 0x0a0b_0c0d, &f, &[], &None, &[], &[]))
        }),
        bits: (0..5).map(|i| vec![(4, 4, 1u64 << i)]).collect(),
        governs: vec![vec![]; 5],
        fields: vec![(4, 4, 0)],
        ignore: vec![],
    });
    // PPTT cache type structure (ACPI 6.5 Table 5.140/5.141); second pass with the value 0
    // supplied: a 'values supplied' flag follows the call, not the value
    for zero in [false, true] {
    let z = move |x: u64| if zero { 0 } else { x };
    v.push(Spec {
        name: if zero { "PPTT/cache/zero-values".into() } else { "PPTT/cache".into() },
        opts: vec![
            "size", "sets", "associativity", "alloc:Read", "alloc:Write", "alloc:Both", "type:Data", "type:Instruction", "type:Unified", "policy:Writeback", "policy:Writethrough", "line_size", "id",
        ],
        build: Box::new(move |seq| {
            let sets: Vec<CacheSet> = seq
                .iter()
                .map(|o| match o {
                    0 => CacheSet::Size(z(0x1122_3344) as u32),
                    1 => CacheSet::Sets(z(0x5566_7788) as u32),
                    2 => CacheSet::Assoc(z(0x9a) as u8),
                    3 => CacheSet::Alloc(0),
                    4 => CacheSet::Alloc(1),
                    5 => CacheSet::Alloc(2),
                    6 => CacheSet::Type(0),
                    7 => CacheSet::Type(1),
                    8 => CacheSet::Type(2),
                    9 => CacheSet::Policy(0),
                    10 => CacheSet::Policy(1),
                    11 => CacheSet::Line(z(0xbcde) as u16),
                    _ => CacheSet::Id(z(0x0f1e_2d3c) as u32),
                })
                .collect();
            ser(&mk_cache_node(&sets, &[]))
        }),
        bits: vec![
            vec![(4, 4, 1)],
            vec![(4, 4, 2)],
            vec![(4, 4, 4)],
            vec![(4, 4, 8)],
            vec![(4, 4, 8), (21, 1, 1)],
            vec![(4, 4, 8), (21, 1, 2)],
            vec![(4, 4, 16)],
            vec![(4, 4, 16), (21, 1, 1 << 2)],
            vec![(4, 4, 16), (21, 1, 2 << 2)],
            vec![(4, 4, 32)],
            vec![(4, 4, 32), (21, 1, 1 << 4)],
            vec![(4, 4, 64)],
            vec![(4, 4, 128)],
        ],
        governs: vec![vec![(12, 4)], vec![(16, 4)], vec![(20, 1)], vec![], vec![], vec![], vec![], vec![], vec![], vec![], vec![], vec![(22, 2)], vec![(24, 4)]],
        fields: vec![(4, 4, 0), (21, 1, 0)],
        ignore: vec![],
    });
    }
    v.push(Spec {
        name: "CEDT/CFMWS-restrictions".into(),
        opts: vec!["cxl_type_2_memory", "cxl_type_3_memory", "volatile", "persistent", "fixed_configuration"],
        build: Box::new(|seq| {
            let r: Vec<u8> = seq.iter().map(|x| *x as u8).collect();
            ser(&mk_cfmws(0x1122_3344_5566_7788, 0x1000_0000, 1, 2, 0, 0x0a0b, &r, &[*b"HB00"]))
        }),
        bits: (0..5).map(|i| vec![(32, 2, 1u64 << i)]).collect(),
        governs: vec![vec![]; 5],
        fields: vec![(32, 2, 0)],
        ignore: vec![],
    });
    // TCPA server (TCG ACPI spec): device flags @58 (bit0 PCI, bit1 PnP, bit2 config address
    // valid), interrupt flags @59 (bit0 edge, bit1 active low, bit2 SCI via GPE, bit3 GSI valid)
    // ... in every header context: the table keeps its checksum while options are applied, so the
    // OEM revision is swept over a byte to give the checksum byte every value
    let mut contexts: Vec<(bool, u32, String)> = vec![(false, H.2, "TCPA-server".into()), (true, H.2, "TCPA-server/zero-values".into())];
    contexts.extend((0..256u32).map(|r| (false, r, "TCPA-server/any-header".to_string())));
    for (zero, rev, name) in contexts {
    v.push(Spec {
        name,
        opts: vec!["active_low", "edge_triggered", "sci_gpe", "gsi", "bus_is_pnp", "pci_sbdf", "config_addr", "log_area", "base_addr"],
        build: Box::new(move |seq| {
            let mut t = tpm2::TpmServer1_2::new(H.0, H.1, rev);
            let zg = GasV { pci: false, space: 0, width: 0, offset: 0, access: 0, addr: 0, dev: 0, func: 0, reg: 0 };
            for o in seq {
                t = match o {
                    0 => t.active_low(),
                    1 => t.edge_triggered(),
                    2 => t.sci_gpe(if zero { 0 } else { 0x5a }),
                    3 => t.gsi(if zero { 0 } else { 0x1122_3344 }),
                    4 => t.bus_is_pnp(),
                    5 => {
                        if zero {
                            t.pci_sbdf(0, 0, 0, 0)
                        } else {
                            t.pci_sbdf(0x12, 0x34, 0x1f, 7)
                        }
                    }
                    6 => t.config_addr(mk_gas(if zero { &zg } else { &GASV })),
                    7 => t.log_area(0x0102_0304_0506_0708, 0x1112_1314_1516_1718),
                    _ => t.base_addr(mk_gas(&gasv())),
                };
            }
            ser(&t)
        }),
        bits: vec![vec![(59, 1, 2)], vec![(59, 1, 1)], vec![(59, 1, 4)], vec![(59, 1, 8)], vec![(58, 1, 2)], vec![(58, 1, 1)], vec![(58, 1, 4)], vec![], vec![]],
        governs: vec![vec![], vec![], vec![(60, 1)], vec![(64, 4)], vec![], vec![(96, 4)], vec![(84, 12)], vec![(40, 16)], vec![(68, 12)]],
        fields: vec![(58, 1, 0), (59, 1, 0)],
        ignore: vec![9],
    });
    }
    // GICC flags (ACPI 6.5 Table 5.37): bit0 enabled, bit1 performance interrupt edge,
    // bit2 VGIC maintenance interrupt edge, bit3 online capable
    for (status, base) in [(0u8, 0u64), (1, 1), (2, 8)] {
        v.push(Spec {
            name: format!("MADT/GICC/status{}", status),
            opts: vec!["performance_interrupt:Edge", "performance_interrupt:Level", "maintenance_interrupt:Edge", "maintenance_interrupt:Level"],
            build: Box::new(move |seq| {
                let sets: Vec<GiccSet> = seq
                    .iter()
                    .map(|o| match o {
                        0 => GiccSet::PerfIrq(0x1122_3344, true),
                        1 => GiccSet::PerfIrq(0x1122_3344, false),
                        2 => GiccSet::MaintIrq(0x5566_7788, true),
                        _ => GiccSet::MaintIrq(0x5566_7788, false),
                    })
                    .collect();
                ser(&mk_gicc(status, &sets))
            }),
            bits: vec![vec![(12, 4, 2)], vec![], vec![(12, 4, 4)], vec![]],
            governs: vec![vec![(20, 4)], vec![(20, 4)], vec![(56, 4)], vec![(56, 4)]],
            fields: vec![(12, 4, base)],
            ignore: vec![],
        });
    }
    // GIC MSI frame flags: bit0 SPI Count/Base Select (1 = the table values override)
    for zero in [false, true] {
    v.push(Spec {
        name: if zero { "MADT/GIC-MSI/zero-values".into() } else { "MADT/GIC-MSI".into() },
        opts: vec!["spi_count_and_base", "gic_msi_frame_id", "base_addr"],
        build: Box::new(move |seq| {
            let mut m = madt::GicMsi::new();
            for o in seq {
                m = match o {
                    0 => {
                        if zero {
                            m.spi_count_and_base(0, 0)
                        } else {
                            m.spi_count_and_base(0x1122, 0x3344)
                        }
                    }
                    1 => m.gic_msi_frame_id(0x5566_7788),
                    _ => m.base_addr(0x0102_0304_0506_0708),
                };
            }
            ser(&m)
        }),
        bits: vec![vec![(16, 4, 1)], vec![], vec![]],
        governs: vec![vec![(20, 4)], vec![(4, 4)], vec![(8, 8)]],
        fields: vec![(16, 4, 0)],
        ignore: vec![],
    });
    }
    // HMAT SLLBI flags: bits 3:0 memory hierarchy, bit4 minimum transfer size, bit5 non-sequential
    for loc in 0..4u8 {
        v.push(Spec {
            name: format!("HMAT/SLLBI/hierarchy{}", loc),
            opts: vec!["non_sequential_transfers", "minimum_transfer_size_required"],
            build: Box::new(move |seq| {
                let ops: Vec<SllbiOp> = seq.iter().map(|o| if *o == 0 { SllbiOp::NonSeq } else { SllbiOp::MinXfer }).collect();
                ser(&mk_sllbi(loc, 1, 2, 0x1122_3344, 2, 3, &ops))
            }),
            bits: vec![vec![(8, 1, 0x20)], vec![(8, 1, 0x10)]],
            governs: vec![vec![]; 2],
            fields: vec![(8, 1, loc as u64)],
            ignore: vec![],
        });
    }
    // RIMT booleans
    v.push(Spec {
        name: "RIMT/interrupt-wire".into(),
        opts: vec!["level_triggered", "polarity_high"],
        build: Box::new(|seq| ser(&rimt::Iommu::new(1, Some(0x1000), None, None, Some(vec![rimt::InterruptWire::new(0x1122_3344, seq.contains(&0), seq.contains(&1), 0x5566)])))),
        bits: vec![vec![(36, 2, 1)], vec![(36, 2, 2)]],
        governs: vec![vec![]; 2],
        fields: vec![(36, 2, 0), (16, 4, 0)],
        ignore: vec![],
    });
    for zero in [false, true] {
    v.push(Spec {
        name: if zero { "RIMT/iommu/zero-values".into() } else { "RIMT/iommu".into() },
        opts: vec!["pci_device", "proximity_domain"],
        build: Box::new(move |seq| {
            ser(&rimt::Iommu::new(
                1,
                Some(0x1000),
                if seq.contains(&0) { Some(if zero { rimt::PciDevice::new(0, 0, 0, 0) } else { rimt::PciDevice::new(0x1234, 0x56, 0x1f, 7) }) } else { None },
                if seq.contains(&1) { Some(if zero { 0 } else { 0x0a0b_0c0d }) } else { None },
                None,
            ))
        }),
        bits: vec![vec![(16, 4, 1)], vec![(16, 4, 2)]],
        governs: vec![vec![(20, 4)], vec![(24, 4)]],
        fields: vec![(16, 4, 0)],
        ignore: vec![],
    });
    }
    v.push(Spec {
        name: "RIMT/id-mapping".into(),
        opts: vec!["ats", "pri", "rciep"],
        build: Box::new(|seq| {
            let mut t = rimt::RIMT::new(H.0, H.1, H.2);
            let h = t.add_iommu(rimt::Iommu::new(1, Some(0x1000), None, None, None));
            ser(&rimt::PcieRootComplex::new(2, 3, false, false, Some(vec![rimt::IdMapping::new(1, 2, 3, h, seq.contains(&0), seq.contains(&1), seq.contains(&2))])))
        }),
        bits: vec![vec![(32, 4, 1)], vec![(32, 4, 2)], vec![(32, 4, 4)]],
        governs: vec![vec![]; 3],
        fields: vec![(32, 4, 0), (8, 4, 0)],
        ignore: vec![],
    });
    v.push(Spec {
        name: "RIMT/root-complex".into(),
        opts: vec!["ats", "pri"],
        build: Box::new(|seq| ser(&rimt::PcieRootComplex::new(2, 3, seq.contains(&0), seq.contains(&1), None))),
        bits: vec![vec![(8, 4, 1)], vec![(8, 4, 2)]],
        governs: vec![vec![]; 2],
        fields: vec![(8, 4, 0)],
        ignore: vec![],
    });
    v
}

fn allowed_mask(spec: &Spec, opt: usize, len: usize) -> Vec<u8> {
    let mut m = vec![0u8; len];
    for (off, w, mask) in &spec.bits[opt] {
        for i in 0..*w {
            if off + i < len {
                m[off + i] |= (mask >> (8 * i)) as u8;
            }
        }
    }
    for (off, l) in &spec.governs[opt] {
        for i in 0..*l {
            if off + i < len {
                m[off + i] = 0xff;
            }
        }
    }
    for i in &spec.ignore {
        if *i < len {
            m[*i] = 0xff;
        }
    }
    m
}

/// check one invocation sequence of one structure
pub fn check_seq(spec: &Spec, seq: &[usize], deep: bool) -> Vec<Violation> {
    let mut out = Vec::new();
    let img = (spec.build)(seq);
    let set: BTreeSet<usize> = seq.iter().copied().collect();
    // (1) every flag field == base | union of the invoked options' bits
    for (fi, (off, w, base)) in spec.fields.iter().enumerate() {
        let mut want = *base;
        for o in &set {
            for (boff, _, mask) in &spec.bits[*o] {
                if boff == off {
                    want |= mask;
                }
            }
        }
        let got = rd(&img, *off, *w);
        if got != want {
            // name the offending option where a single one explains it
            let culprit = set
                .iter()
                .find(|o| {
                    let bits: u64 = spec.bits[**o].iter().filter(|b| b.0 == *off).fold(0, |a, b| a | b.2);
                    bits != 0 && (got & bits) != bits
                })
                .map(|o| spec.opts[*o])
                .unwrap_or("-");
            out.push(Violation::new(
                "C11",
                &spec.name,
                "option-bit",
                format!("field#{} option:{}", fi, culprit),
                format!("options={:?} field@{} expected={:#x} found={:#x}", seq.iter().map(|o| spec.opts[*o]).collect::<Vec<_>>(), off, want, got),
            ));
            return out;
        }
    }
    if !deep {
        return out;
    }
    // (2) independence: removing option x changes nothing outside what x governs
    for x in &set {
        let without: Vec<usize> = seq.iter().copied().filter(|o| o != x).collect();
        let other = (spec.build)(&without);
        if other.len() != img.len() {
            out.push(Violation::new("C11", &spec.name, "option-interference", format!("option:{} changes the size", spec.opts[*x]), String::new()));
            return out;
        }
        let allow = allowed_mask(spec, *x, img.len());
        if let Some(i) = (0..img.len()).find(|i| (img[*i] ^ other[*i]) & !allow[*i] != 0) {
            out.push(Violation::new(
                "C11",
                &spec.name,
                "option-interference",
                format!("option:{} offset={}", spec.opts[*x], i),
                format!("options={:?} with={:#04x} without={:#04x}", seq.iter().map(|o| spec.opts[*o]).collect::<Vec<_>>(), img[i], other[i]),
            ));
            return out;
        }
    }
    out
}

/// constructor-assigned codes (not OR-able options): (name, bytes, offset, width, expected)
pub fn assigned() -> Vec<(String, Vec<u8>, usize, usize, u64)> {
    let mut v = Vec::new();
    for (i, p) in PM_PROFILES.iter().enumerate() {
        let b = ser(&fadt::FADTBuilder::new(H.0, H.1, H.2).preferred_pm_profile(*p).finalize());
        v.push((format!("FADT/preferred_pm_profile={}", i), b, 45, 1, i as u64));
    }
    for (s, want) in [(0u8, 0u64), (1, 1), (2, 2)] {
        v.push((format!("MADT/LAPIC/status{}", s), ser(&madt::ProcessorLocalApic::new(1, 2, mk_lapic_status(s))), 4, 4, want));
        let hs = [madt::HartStatus::Disabled, madt::HartStatus::Enabled, madt::HartStatus::OnlineCapable][s as usize];
        v.push((format!("MADT/RINTC/status{}", s), ser(&madt::RINTC::new(hs, 1, 2, 3, 4, 5)), 4, 4, want));
    }
    for (dev, want) in [(None, 2u64), (Some((0u8, bdf())), 0), (Some((1u8, bdf())), 1)] {
        v.push((format!("HEST/aer-root-port/{:?}", dev.map(|d| d.0)), ser(&mk_aer_root(&dev, &[])), 6, 1, want));
        v.push((format!("HEST/aer-device/{:?}", dev.map(|d| d.0)), ser(&mk_aer_dev(&dev, &[])), 6, 1, want));
        v.push((format!("HEST/aer-bridge/{:?}", dev.map(|d| d.0)), ser(&mk_aer_bridge(&dev, &[])), 6, 1, want));
    }
    v
}

fn subsets_in_orders(n: usize, max_perm: usize) -> Vec<Vec<usize>> {
    // every subset in canonical order; every order of subsets up to max_perm elements;
    // each subset once more with a repetition
    let mut out = Vec::new();
    for mask in 0u32..(1 << n) {
        let s: Vec<usize> = (0..n).filter(|i| mask & (1 << i) != 0).collect();
        if s.len() >= 2 && s.len() <= max_perm {
            permute(&s, &mut out);
        } else {
            out.push(s.clone());
        }
        if !s.is_empty() {
            let mut r = s.clone();
            r.push(s[0]);
            r.reverse();
            out.push(r);
        }
    }
    out
}

fn permute(s: &[usize], out: &mut Vec<Vec<usize>>) {
    fn rec(cur: &mut Vec<usize>, rest: &mut Vec<usize>, out: &mut Vec<Vec<usize>>) {
        if rest.is_empty() {
            out.push(cur.clone());
            return;
        }
        for i in 0..rest.len() {
            let x = rest.remove(i);
            cur.push(x);
            rec(cur, rest, out);
            cur.pop();
            rest.insert(i, x);
        }
    }
    rec(&mut vec![], &mut s.to_vec(), out);
}

pub fn run(ctx: &Ctx) {
    ctx.set_rule("for every option-bearing structure (FADT flags, SRAT memory / generic initiator x 2 handle kinds / RINTC affinity, PPTT processor and cache (13 option values), CFMWS restrictions, TCPA server (9 builders), GICC x 3 states, GIC MSI frame, HMAT SLLBI x 4 hierarchies, RIMT wire / IOMMU / id-mapping / root complex): all subsets of its options (n <= 13: exhaustively, every order for subsets of <= 4 options, plus a repetition; FADT's 25: every single and pair, random subsets in quick, all 2^25 in thorough) are invoked on the real builder; (1) each flag/attribute field must equal the union of the specification bits of exactly the invoked options, (2) removing an option may change only the bits and value fields that option governs (+ the table checksum), (3) distinct subsets of bit-carrying options give distinct images, (4) 'values supplied' flags are set exactly when supplied. Constructor-assigned codes (PM profile, enable states, AER global/firmware-first) are checked value by value. Non-trivial = subset of >= 2 options, a repetition or a non-canonical order; distinct = distinct invocation sequences.");
    ctx.assume("setters that assign an enumerated code (preferred_pm_profile, enable states) are invoked with one value per program; OR-style enumerations (PPTT cache attributes, FADT persistent-cache field) use the statement's union semantics");
    let specs = specs();
    let mut total = 0u64;
    let mut nontriv = 0u64;
    let mut found: Vec<(String, Vec<usize>, Violation)> = Vec::new();
    for spec in &specs {
        let n = spec.opts.len();
        let seqs: Vec<Vec<usize>> = if n <= 13 {
            subsets_in_orders(n, 4)
        } else {
            let mut s: Vec<Vec<usize>> = vec![vec![]];
            for a in 0..n {
                s.push(vec![a]);
                s.push(vec![a, a]);
                for b in 0..n {
                    if a != b {
                        s.push(vec![a, b]);
                    }
                }
            }
            s
        };
        let res: Vec<(usize, Vec<Violation>)> = seqs.par_iter().enumerate().map(|(i, s)| (i, check_seq(spec, s, true))).filter(|(_, v)| !v.is_empty()).collect();
        total += seqs.len() as u64;
        nontriv += seqs.iter().filter(|s| s.len() >= 2).count() as u64;
        for (i, vs) in res {
            for x in vs {
                found.push((spec.name.clone(), seqs[i].clone(), x));
            }
        }
        // (3) distinguishability over canonical subsets of bit-carrying options
        if n <= 13 {
            let carrying: Vec<usize> = (0..n).filter(|o| spec.bits[*o].iter().any(|b| b.2 != 0)).collect();
            let key_of = |s: &[usize]| -> (Vec<(usize, u64)>, BTreeSet<(usize, usize)>) {
                let fields = spec
                    .fields
                    .iter()
                    .map(|(off, _, _)| (*off, s.iter().flat_map(|o| spec.bits[*o].iter()).filter(|b| b.0 == *off).fold(0u64, |a, b| a | b.2)))
                    .collect();
                let gov = s.iter().flat_map(|o| spec.governs[*o].iter().copied()).collect();
                (fields, gov)
            };
            let mut seen: HashMap<Vec<u8>, Vec<usize>> = HashMap::new();
            for mask in 0u32..(1 << carrying.len()) {
                let s: Vec<usize> = carrying.iter().enumerate().filter(|(i, _)| mask & (1 << i) != 0).map(|(_, o)| *o).collect();
                let img = (spec.build)(&s);
                // subsets with the same union of bits and the same supplied values are the
                // same request; any other pair must be distinguishable in the output
                if let Some(prev) = seen.insert(img, s.clone()) {
                    if key_of(&prev) != key_of(&s) {
                        found.push((
                            spec.name.clone(),
                            s.clone(),
                            Violation::new(
                                "C11",
                                &spec.name,
                                "option-indistinguishable",
                                "two different option subsets give identical bytes".into(),
                                format!("{:?} vs {:?}", prev.iter().map(|o| spec.opts[*o]).collect::<Vec<_>>(), s.iter().map(|o| spec.opts[*o]).collect::<Vec<_>>()),
                            ),
                        ));
                    }
                }
                total += 1;
            }
        }
    }
    // FADT: random subsets (quick) / all 2^25 (thorough), check (1) only
    let fadt_spec = specs.iter().find(|s| s.name == "FADT/flags").unwrap();
    if ctx.quick() {
        let n = ctx.scale(65_536, 0);
        let seed = ctx.seed;
        let res: Vec<(Vec<usize>, Vec<Violation>)> = (0..n)
            .into_par_iter()
            .map(|i| {
                let m = mix(seed, "c11.fadt", i) as u32 & ((1 << 25) - 1);
                let s: Vec<usize> = (0..25).filter(|b| m & (1 << b) != 0).collect();
                let v = check_seq(fadt_spec, &s, i % 64 == 0);
                (s, v)
            })
            .filter(|(_, v)| !v.is_empty())
            .collect();
        total += n;
        nontriv += n;
        for (s, vs) in res {
            for x in vs {
                found.push((fadt_spec.name.clone(), s.clone(), x));
            }
        }
        ctx.add_subdomain("FADT: 65536 random subsets of the 25 flag values", n, false);
    } else {
        let res: Vec<(Vec<usize>, Vec<Violation>)> = (0u32..1 << 25)
            .into_par_iter()
            .map(|m| {
                let s: Vec<usize> = (0..25).filter(|b| m & (1 << b) != 0).collect();
                let v = check_seq(fadt_spec, &s, false);
                (s, v)
            })
            .filter(|(_, v)| !v.is_empty())
            .collect();
        total += 1 << 25;
        nontriv += (1 << 25) - 26;
        for (s, vs) in res.into_iter().take(50) {
            for x in vs {
                found.push((fadt_spec.name.clone(), s.clone(), x));
            }
        }
        ctx.add_subdomain("FADT: all 2^25 subsets of the 25 flag values", 1 << 25, true);
    }
    // constructor-assigned codes
    let asg = assigned();
    for (name, bytes, off, w, want) in &asg {
        total += 1;
        let got = rd(bytes, *off, *w);
        if got != *want {
            found.push((name.clone(), vec![], Violation::new("C11", name.split('=').next().unwrap_or(name), "option-bit", "assigned-code".into(), format!("{} field@{} expected={:#x} found={:#x}", name, off, want, got))));
        }
    }
    // the assigned code must be the only thing that changes
    let base = ser(&fadt::FADTBuilder::new(H.0, H.1, H.2).finalize());
    for (name, bytes, off, _, _) in asg.iter().filter(|a| a.0.starts_with("FADT/")) {
        if let Some(i) = (0..bytes.len()).find(|i| bytes[*i] != base[*i] && *i != *off && *i != 9) {
            found.push((name.clone(), vec![], Violation::new("C11", "FADT/preferred_pm_profile", "option-interference", format!("offset={}", i), name.clone())));
        }
    }
    ctx.add_evals(total);
    ctx.add_nontrivial_counted(nontriv);
    ctx.add_engine("enumeration:c11", total);
    ctx.add_subdomain("all option subsets (n<=13) x orders (<=4 options) x one repetition, for every structure (see classes); assigned codes", total, true);
    for s in &specs {
        ctx.add_class(&format!("structure:{}", s.name), 1);
    }
    ctx.add_sample(json!({"structure": "PPTT/cache", "sequence": ["alloc:Write", "size", "type:Unified"], "expect": "flags@4 = 0x19, attributes@21 = 0x09, size@12"}));
    ctx.add_sample(json!({"structure": "TCPA-server", "sequence": ["gsi", "bus_is_pnp"], "expect": "device flags@58 = 0x02, interrupt flags@59 = 0x08, GSI@64"}));
    found.sort_by_key(|(_, s, v)| (v.sig(), s.len()));
    found.dedup_by_key(|(_, _, v)| v.sig());
    for (name, seq, v) in found {
        ctx.report("c11.seq", json!({"case": {"structure": name, "sequence": seq}}), vec![v]);
    }
}

pub fn replay(case: &serde_json::Value) -> Vec<Violation> {
    let name = case["structure"].as_str().unwrap_or("");
    let seq: Vec<usize> = case["sequence"].as_array().map(|a| a.iter().filter_map(|x| x.as_u64().map(|v| v as usize)).collect()).unwrap_or_default();
    let mut out = Vec::new();
    for s in specs() {
        if s.name == name {
            out.extend(check_seq(&s, &seq, true));
        }
    }
    for (n, bytes, off, w, want) in assigned() {
        if n == name && rd(&bytes, off, w) != want {
            out.push(Violation::new("C11", n.split('=').next().unwrap_or(&n), "option-bit", "assigned-code".into(), n.clone()));
        }
    }
    out
}
