//! C10 — resource descriptors and templates are correctly framed and valued.

use super::c07::pkglen_decode;
use super::c08::decode_int;
use crate::aml::build::{emit, with_res};
use crate::aml::res::*;
use crate::aml::term::Term;
use crate::engine::*;
use rayon::prelude::*;
use serde_json::json;
use std::panic::{catch_unwind, AssertUnwindSafe};

fn field_of(reason: &str) -> String {
    reason.split(' ').next().unwrap_or("").to_string()
}

/// one descriptor on its own
pub fn check_single(r: &Res) -> Vec<Violation> {
    let name = kind_name(r);
    let bytes = catch_unwind(AssertUnwindSafe(|| {
        let mut v = Vec::new();
        with_res(r, &mut |o| v = crate::aml::build::ser_sinks(o));
        v
    }));
    let bytes = match bytes {
        Ok(b) => b,
        Err(_) => return vec![Violation::new("C10", &name, "refused-valid", String::new(), format!("{:?}", r))],
    };
    // frame it with an end tag so that the walker applies
    let mut framed = bytes.clone();
    framed.extend_from_slice(&[0x79, 0]);
    match walk(&framed) {
        Err(e) => vec![Violation::new("C10", &name, "descriptor", "framing".into(), format!("{} bytes={:02x?}", e, bytes))],
        Ok(ds) => {
            if ds.len() != 2 {
                return vec![Violation::new("C10", &name, "descriptor", "framing".into(), format!("descriptor splits into {} items bytes={:02x?}", ds.len(), bytes))];
            }
            match check_desc(&ds[0], r) {
                Ok(()) => vec![],
                Err(e) => vec![Violation::new("C10", &name, "descriptor", field_of(&e), format!("{} case={:?} bytes={:02x?}", e, r, bytes))],
            }
        }
    }
}

pub fn oracle(rs: &Vec<Res>) -> Vec<Violation> {
    let mut out = Vec::new();
    for r in rs {
        out.extend(check_single(r));
        if !out.is_empty() {
            return out;
        }
    }
    let t = Term::ResourceTemplate(rs.clone());
    let bytes = match catch_unwind(AssertUnwindSafe(|| emit(&t))) {
        Ok(b) => b,
        Err(_) => return vec![Violation::new("C10", "ResourceTemplate", "refused-valid", String::new(), String::new())],
    };
    let v = |detail: &str, info: String| Violation::new("C10", "ResourceTemplate", "template", detail.to_string(), info);
    // Buffer: 11 PkgLength BufferSize payload
    if bytes.first() != Some(&0x11) {
        return vec![v("not a Buffer", format!("bytes={:02x?}", &bytes[..bytes.len().min(16)]))];
    }
    let (plen, used) = match pkglen_decode(&bytes[1..]) {
        Ok(x) => x,
        Err(e) => return vec![v("PkgLength", e.to_string())],
    };
    if plen != bytes.len() - 1 {
        return vec![v("PkgLength != bytes to the end of the buffer object", format!("pkglen={} actual={}", plen, bytes.len() - 1))];
    }
    let rest = &bytes[1 + used..];
    let Some((size, iused)) = decode_int(rest) else {
        return vec![v("buffer size is not an integer constant", format!("bytes={:02x?}", &rest[..rest.len().min(12)]))];
    };
    let payload = &rest[iused..];
    if size as usize != payload.len() {
        return vec![v("declared buffer size != payload", format!("declared={} payload={}", size, payload.len()))];
    }
    let want = template_payload(rs);
    match walk(payload) {
        Err(e) => out.push(v("walk by descriptor lengths", e)),
        Ok(ds) => {
            if ds.len() != rs.len() + 1 {
                out.push(v("descriptor count", format!("walked={} supplied={}", ds.len() - 1, rs.len())));
            } else {
                for (d, r) in ds.iter().zip(rs.iter()) {
                    if let Err(e) = check_desc(d, r) {
                        out.push(Violation::new("C10", &kind_name(r), "descriptor", format!("in-template {}", field_of(&e)), e));
                        break;
                    }
                }
                let last = ds.last().unwrap();
                if last.tag != 0x79 || last.payload != [0] {
                    out.push(v("end tag", format!("tag={:#x} payload={:02x?}", last.tag, last.payload)));
                }
            }
        }
    }
    if out.is_empty() && payload != want.as_slice() {
        out.push(v("payload != children in order + end tag", String::new()));
    }
    out
}

pub fn decode(s: &mut Choices) -> Vec<Res> {
    let n = match s.below(8) {
        0 => 0,
        1 => 1,
        // payload sizes around the buffer-size integer widths and PkgLength boundaries
        2 => 5 + s.below(4),    // ~ 63/64
        3 => 26 + s.below(6),   // ~ 255/256
        4 => 440 + s.below(30), // ~ 4095/4096
        _ => 2 + s.below(6),
    };
    (0..n).map(|_| gen_res(s)).collect()
}

fn nontrivial(rs: &Vec<Res>) -> bool {
    let mut kinds = std::collections::BTreeSet::new();
    for r in rs {
        kinds.insert(kind_name(r));
    }
    rs.len() >= 2 && kinds.len() >= 2
}

pub fn run(ctx: &Ctx) {
    ctx.set_rule("generated descriptors of every kind (Memory32Fixed, IO, extended Interrupt, generic Register over all address spaces/access sizes, word/dword/qword address space for memory x 4 cacheabilities x rw / IO / bus numbers, optional translation; min <= max with a representable range size) and templates of 0..470 descriptors in any order; an independent walker steps through the buffer payload by the descriptors' own length fields; every descriptor must start with the specification tag, carry a length field equal to its payload, hold the caller's values at the specification offsets (range length = max - min + 1, MinFixed|MaxFixed set); the template must be Buffer(PkgLength to the end, declared size == payload, payload == children in order + 79 00). Exhaustive: all flag combinations of every kind, every payload size 0..4200 built from 8- and 9-byte items. Non-trivial = template with >= 2 descriptors of >= 2 kinds; distinct by hash. Every descriptor is serialised after a discarded serialisation and through four sinks (vector, byte-only, generic table, package builder); a sink that delivers other bytes is the one judged.");
    ctx.assume("ranges (0, MAX) whose size is not representable are C18's subject and are not generated here");
    // directed: all flag combinations
    let mut dir: Vec<Vec<Res>> = Vec::new();
    for rw in [false, true] {
        dir.push(vec![Res::Memory32Fixed { rw, base: 0x0102_0304, len: 0x0a0b_0c0d }]);
    }
    for m in 0..16u8 {
        dir.push(vec![Res::Interrupt { consumer: m & 1 != 0, edge: m & 2 != 0, active_low: m & 4 != 0, shared: m & 8 != 0, number: 0x1122_3344 }]);
    }
    for space in 0..13u8 {
        for access in 0..5u8 {
            dir.push(vec![Res::Register(crate::tables::types::GasV { pci: false, space, width: 0x40, offset: 0x08, access, addr: 0x0102_0304_0506_0708, dev: 0, func: 0, reg: 0 })]);
        }
    }
    for width in [16u8, 32, 64] {
        let mask = if width == 64 { u64::MAX } else { (1u64 << width) - 1 };
        let mut tys = vec![AsType::Io, AsType::Bus];
        for c in 0..4 {
            for rw in [false, true] {
                tys.push(AsType::Memory(c, rw));
            }
        }
        for ty in tys {
            for (min, max) in [(0u64, 0u64), (1, mask), (0, mask - 1), (0x1234 & mask, 0x1234 & mask), (0x0102_0304_0506_0708 & mask, mask)] {
                for tr in [None, Some(0x1112_1314_1516_1718u64 & mask)] {
                    if ty == AsType::Bus && tr.is_some() {
                        continue;
                    }
                    dir.push(vec![Res::AddrSpace { width, ty, min, max, translation: tr }]);
                }
            }
        }
    }
    // Descriptors whose own bytes look like a delimiter: ending in the end tag 79 00, starting with it,
    // or carrying another descriptor's tag -- alone, last in a template, and followed by another one.
    {
        let lookalikes = vec![
            Res::Memory32Fixed { rw: true, base: 0x1000, len: 0x0079_0000 },
            Res::Memory32Fixed { rw: false, base: 0x0079_0079, len: 0x0079_7900 },
            Res::Interrupt { consumer: true, edge: false, active_low: false, shared: false, number: 0x0079_0000 },
            Res::Interrupt { consumer: false, edge: true, active_low: true, shared: true, number: 0x7900_0079 },
            Res::Io { min: 0x0079, max: 0x7900, align: 0x79, len: 0 },
            Res::Io { min: 0x3f8, max: 0x3f8, align: 0x79, len: 0x00 },
            Res::AddrSpace { width: 16, ty: AsType::Io, min: 0x0079, max: 0x0079 + 0x78, translation: None },
            Res::AddrSpace { width: 32, ty: AsType::Memory(1, true), min: 0x1000, max: 0x1000 + 0x0079_0000 - 1, translation: None },
            Res::AddrSpace { width: 64, ty: AsType::Memory(0, false), min: 0x47, max: 0x47 + 0x0079_0000_0000_0000 - 1, translation: Some(0x7900) },
            Res::Register(crate::tables::types::GasV { pci: false, space: 0x0a, width: 0x79, offset: 0x79, access: 0, addr: 0x0079_0000_0000_0000, dev: 0, func: 0, reg: 0 }),
        ];
        for l in &lookalikes {
            dir.push(vec![l.clone()]);
            dir.push(vec![Res::Io { min: 1, max: 2, align: 1, len: 1 }, l.clone()]);
            dir.push(vec![l.clone(), Res::Memory32Fixed { rw: true, base: 1, len: 2 }]);
            dir.push(vec![l.clone(), l.clone()]);
        }
    }
    // every template payload size
    let sizes: Vec<u32> = if ctx.quick() { super::c06::boundary_sizes(false) } else { (0..=4200).collect() };
    for n in sizes {
        if let Term::ResourceTemplate(rs) = super::c06::sized_object(3, n) {
            dir.push(rs);
        }
    }
    // payload 65533..65540 (buffer size crosses the word/dword boundary)
    for n in [65_520u32, 65_528, 65_529, 65_530, 65_533, 65_534, 65_535, 65_536, 65_537, 65_544] {
        if let Term::ResourceTemplate(rs) = super::c06::sized_object(3, n) {
            dir.push(rs);
        }
    }
    let res: Vec<(usize, Vec<Violation>)> = dir.par_iter().enumerate().map(|(i, c)| (i, guarded("C10", &oracle, c))).filter(|(_, v)| !v.is_empty()).collect();
    ctx.add_evals(dir.len() as u64);
    ctx.add_engine("directed:c10", dir.len() as u64);
    ctx.add_subdomain("all flag combinations of every descriptor kind; template payload sizes across PkgLength and buffer-size width boundaries", dir.len() as u64, true);
    ctx.add_nontrivial(dir.iter().filter(|c| nontrivial(c)).map(fingerprint));
    let mut seen = std::collections::HashSet::new();
    for (i, vs) in res {
        for x in vs {
            if seen.insert(x.sig()) {
                ctx.report("c10.template", json!({"case": serde_json::to_value(&dir[i]).unwrap()}), vec![x]);
            }
        }
    }
    ctx.add_sample(serde_json::to_value(&dir[20]).unwrap());
    run_pt(
        ctx,
        Pt {
            name: "c10.template",
            cases: ctx.scale(150_000, 800_000),
            max_len: 4000,
            decode: &decode,
            oracle: &oracle,
            nontrivial: &nontrivial,
            classify: &|rs: &Vec<Res>, l: &mut Vec<String>| {
                for r in rs {
                    l.push(format!("kind:{}", kind_name(r)));
                }
                l.sort();
                l.dedup();
                let n = template_payload(rs).len();
                l.push(
                    match n {
                        0..=60 => "payload<=60",
                        61..=66 => "payload~63",
                        67..=250 => "payload<=250",
                        251..=260 => "payload~255",
                        261..=4080 => "payload<=4080",
                        4081..=4100 => "payload~4095",
                        _ => "payload>4100",
                    }
                    .into(),
                );
            },
            to_json: &|c: &Vec<Res>| serde_json::to_value(c).unwrap(),
        },
    );
}

pub fn replay(case: &serde_json::Value) -> Vec<Violation> {
    let c: Vec<Res> = serde_json::from_value(case.clone()).expect("C10 case");
    oracle(&c)
}
