//! C02 — the declared Length equals the number of bytes emitted, after
//! construction and after every builder operation.

use super::common::*;
use crate::engine::*;
use crate::tables::drive::*;
use crate::tables::expect::*;
use crate::tables::gen::flatten;
use crate::tables::types::*;

pub const ALL: &[Kind] = &ALL_KINDS;

/// C02 does not judge caller overwrites of the Length field itself: Sdt
/// writes that overlap bytes 4..8 are moved to the OEM id (construction).
pub fn sanitize(p: &Program) -> Program {
    let mut q = p.clone();
    if q.kind == Kind::Fadt {
        // likewise a direct write to the FADT builder's pub `length` field (index 43)
        q.ops.retain(|o| !matches!(o, Op::Fadt(FadtSet::Field(43, _))));
        return q;
    }
    if q.kind != Kind::Sdt {
        return q;
    }
    fn fix(o: &mut Op) {
        if let Op::Sdt(s) = o {
            if let Some((off, w)) = sdt_write_span(s) {
                if off < 8 && off.saturating_add(w) > 4 {
                    match s {
                        SdtOp::WriteU8(o, _) | SdtOp::WriteU16(o, _) | SdtOp::WriteU32(o, _) | SdtOp::WriteU64(o, _) | SdtOp::WriteSlice(o, _) => *o = 10,
                        _ => {}
                    }
                }
            }
        }
    }
    for o in q.ops.iter_mut() {
        fix(o);
    }
    q
}

pub fn oracle(p: &Program) -> Vec<Violation> {
    let p = &sanitize(p);
    let flat = flatten(p);
    let mut out: Vec<Violation> = Vec::new();
    let name = p.kind.name();
    let mut prev: Option<(usize, usize, u32)> = None; // step, len, declared
    let mut tr = Tracker::new(p, &flat);
    let res = drive(p, &flat, &mut |o: &Obs| {
        let after = if o.step == 0 { "ctor".to_string() } else { flat[o.step - 1].label().to_string() };
        // a valid operation that panics (in this build profile) delivers no table at all
        if tr.observe(&flat, o.step, o.refused) == Some("refused-valid") && !out.iter().any(|v| v.kind == "refused-valid") {
            out.push(Violation::new("C02", &format!("{}/{}", name, after), "refused-valid", String::new(), format!("step={} op={}", o.step, trunc(format!("{:?}", flat[o.step - 1]), 200))));
        }
        let (off, what) = if p.kind == Kind::Rsdp { (20, "rsdp-length") } else { (4, "length") };
        if o.image.len() < off + 4 {
            out.push(Violation::new("C02", name, "length-field", format!("image-too-short after:{}", after), format!("len={}", o.image.len())));
            return;
        }
        let declared = le32(o.image, off);
        let emitted = o.image.len();
        match prev {
            // contiguous prefixes: judge the step itself, so that the signature names the
            // entry kind that introduced the disagreement and later steps stay quiet
            Some((ps, pl, pd)) if ps + 1 == o.step => {
                let claimed = declared as i64 - pd as i64;
                let written = emitted as i64 - pl as i64;
                if claimed != written && out.len() < 8 {
                    out.push(Violation::new(
                        "C02",
                        name,
                        "length-delta",
                        format!("after:{} claimed={} written={}", after, claimed, written),
                        format!("step={} declared={} emitted={}", o.step, declared, emitted),
                    ));
                }
            }
            Some(_) => {
                // non-contiguous observation (long histories): absolute comparison,
                // reported once
                if declared as usize != emitted && !out.iter().any(|v| v.kind == "length-field") && out.is_empty() {
                    out.push(Violation::new("C02", name, "length-field", format!("{} after:{}", what, after), format!("step={} declared={} emitted={}", o.step, declared, emitted)));
                }
            }
            None => {
                if declared as usize != emitted {
                    out.push(Violation::new("C02", name, "length-field", format!("ctor declared={} emitted={}", declared, emitted), String::new()));
                }
            }
        }
        prev = Some((o.step, emitted, declared));
    });
    if res.ctor_refused && !ctor_refused(p) {
        out.push(Violation::new("C02", name, "refused-valid", "ctor".into(), format!("{:?}", p.ctor)));
    }
    out
}

fn nontrivial(p: &Program) -> bool {
    !p.ops.is_empty()
}

pub fn run(ctx: &Ctx) {
    ctx.set_rule("generated builder programs for all 22 kinds (incl. FACS: 64 at offset 4, RSDP: 36 at offset 20), mixtures of entry kinds drawn independently per op, plus directed histories ([], [e], e x255/256/257, all ordered pairs of entry kinds) and long histories; oracle: LE32 length field == emitted byte count after every observed prefix, and per step delta(Length) == delta(bytes). Non-trivial = at least one op; distinct by hash of the program.");
    ctx.assume("Sdt writes overlapping bytes 4..8 are moved away (a caller overwriting the Length field is not a builder operation; that interaction is C13's)");
    ctx.assume("documented preconditions as in C01");
    let seed = ctx.seed;
    {
        // the public static size helpers must name the number of bytes the structure serialises to
        use acpi_tables::{facs, gas, rsdp, tpm2};
        let sizes: [(&str, usize, usize); 4] = [
            ("facs::FACS::len()", facs::FACS::len(), ser(&facs::FACS::new()).len()),
            ("rsdp::Rsdp::len()", rsdp::Rsdp::len(), ser(&rsdp::Rsdp::new(*b"OEMIDX", 0x1000)).len()),
            ("gas::GAS::len()", gas::GAS::len(), ser(&gas::GAS::new(gas::AddressSpace::SystemMemory, 8, 0, gas::AccessSize::ByteAccess, 0x1000)).len()),
            ("tpm2::TpmServer1_2::len()", tpm2::TpmServer1_2::len(), ser(&tpm2::TpmServer1_2::new(*b"OEMIDX", *b"TABLEID0", 1)).len()),
        ];
        let vs: Vec<Violation> = sizes.iter().filter(|(_, a, b)| a != b).map(|(n, a, b)| Violation::new("C02", n, "length-field", "static len() != serialised size".into(), format!("len()={} serialised={}", a, b))).collect();
        ctx.add_evals(4);
        ctx.add_engine("directed:c02.static-len", 4);
        ctx.report("c02.static-len", serde_json::json!({"case": "static-len"}), vs);
    }
    table_list(ctx, "c02.directed", directed_programs(ALL, seed), &oracle, &nontrivial);
    table_list(ctx, "c02.long", long_programs(ALL, seed, ctx.quick()), &oracle, &nontrivial);
    table_pt(ctx, "c02.random", ALL, ctx.scale(6_000, 300_000), &oracle, &nontrivial);
}

pub fn replay(case: &serde_json::Value) -> Vec<Violation> {
    if case.as_str() == Some("static-len") {
        return vec![]; // re-run by every check run (directed, no stored input)
    }
    let p: Program = serde_json::from_value(case.clone()).expect("replay case must be a table program");
    oracle(&p)
}
