//! Resource descriptors (ACPI 6.5 section 6.4): owned description, generator,
//! reference encoder and an independent walker/decoder.

use crate::engine::Choices;
use crate::tables::gen::gen_gas;
use crate::tables::refenc::gas as ref_gas;
use crate::tables::types::GasV;
use serde::{Deserialize, Serialize};

#[derive(Clone, Copy, Debug, PartialEq, Eq, Hash, Serialize, Deserialize)]
pub enum AsType {
    /// cacheability 0..=3, read-write
    Memory(u8, bool),
    Io,
    Bus,
}

#[derive(Clone, Debug, PartialEq, Eq, Hash, Serialize, Deserialize)]
pub enum Res {
    Memory32Fixed { rw: bool, base: u32, len: u32 },
    Io { min: u16, max: u16, align: u8, len: u8 },
    Interrupt { consumer: bool, edge: bool, active_low: bool, shared: bool, number: u32 },
    Register(GasV),
    /// width in bits (16/32/64)
    AddrSpace { width: u8, ty: AsType, min: u64, max: u64, translation: Option<u64> },
}

pub fn gen_range(s: &mut Choices, bits: u32) -> (u64, u64) {
    let mask = if bits == 64 { u64::MAX } else { (1u64 << bits) - 1 };
    let a = s.int(bits);
    let b = s.int(bits);
    let (mut lo, mut hi) = (a.min(b), a.max(b));
    match s.below(5) {
        0 => hi = lo,      // single address
        1 => {
            // largest representable range
            lo = 1;
            hi = mask;
        }
        2 => {
            lo = 0;
            hi = mask - 1;
        }
        _ => {}
    }
    if lo == 0 && hi == mask {
        hi = mask - 1; // (0, MAX) has no representable size: C18's subject
    }
    (lo, hi)
}

pub fn gen_res(s: &mut Choices) -> Res {
    match s.below(7) {
        0 => Res::Memory32Fixed { rw: s.bool(), base: s.u32(), len: s.u32() },
        1 => Res::Io { min: s.u16(), max: s.u16(), align: s.u8(), len: s.u8() },
        2 => Res::Interrupt { consumer: s.bool(), edge: s.bool(), active_low: s.bool(), shared: s.bool(), number: s.u32() },
        3 => Res::Register(gen_gas(s)),
        _ => {
            let width = s.pick(&[16u8, 32, 64]);
            let ty = match s.below(3) {
                0 => AsType::Memory(s.below(4) as u8, s.bool()),
                1 => AsType::Io,
                _ => AsType::Bus,
            };
            let (min, max) = gen_range(s, width as u32);
            let translation = if ty != AsType::Bus && s.bool() { Some(s.int(width as u32)) } else { None };
            Res::AddrSpace { width, ty, min, max, translation }
        }
    }
}

fn put(v: &mut Vec<u8>, x: u64, bytes: usize) {
    for i in 0..bytes {
        v.push((x >> (8 * i)) as u8);
    }
}

/// reference encoding of one descriptor, from ACPI 6.5 6.4.2 / 6.4.3
pub fn encode(r: &Res) -> Vec<u8> {
    let mut v = Vec::new();
    match r {
        Res::Memory32Fixed { rw, base, len } => {
            v.push(0x86);
            put(&mut v, 9, 2);
            v.push(*rw as u8);
            put(&mut v, *base as u64, 4);
            put(&mut v, *len as u64, 4);
        }
        Res::Io { min, max, align, len } => {
            v.push(0x47); // small item, name 0x8, length 7
            v.push(1); // Decode16
            put(&mut v, *min as u64, 2);
            put(&mut v, *max as u64, 2);
            v.push(*align);
            v.push(*len);
        }
        Res::Interrupt { consumer, edge, active_low, shared, number } => {
            v.push(0x89);
            put(&mut v, 6, 2);
            v.push((*consumer as u8) | ((*edge as u8) << 1) | ((*active_low as u8) << 2) | ((*shared as u8) << 3));
            v.push(1); // interrupt table length
            put(&mut v, *number as u64, 4);
        }
        Res::Register(g) => {
            v.push(0x82);
            put(&mut v, 12, 2);
            v.extend_from_slice(&ref_gas(g));
        }
        Res::AddrSpace { width, ty, min, max, translation } => {
            let w = (*width / 8) as usize;
            v.push(match width {
                16 => 0x88,
                32 => 0x87,
                _ => 0x8a,
            });
            put(&mut v, (3 + 5 * w) as u64, 2);
            let (t, tf) = match ty {
                AsType::Memory(c, rw) => (0u8, (*c << 1) | *rw as u8),
                AsType::Io => (1, 3),
                AsType::Bus => (2, 0),
            };
            v.push(t);
            v.push((1 << 2) | (1 << 3)); // MinFixed | MaxFixed
            v.push(tf);
            put(&mut v, 0, w); // granularity
            put(&mut v, *min, w);
            put(&mut v, *max, w);
            put(&mut v, translation.unwrap_or(0), w);
            put(&mut v, max - min + 1, w);
        }
    }
    v
}

pub fn template_payload(rs: &[Res]) -> Vec<u8> {
    let mut v = Vec::new();
    for r in rs {
        v.extend(encode(r));
    }
    v.push(0x79);
    v.push(0x00);
    v
}

#[derive(Clone, Debug, PartialEq, Eq)]
pub struct Desc {
    pub offset: usize,
    pub tag: u8,
    /// payload bytes after the header
    pub payload: Vec<u8>,
}

/// walk a resource buffer payload by the descriptors' own length fields
pub fn walk(p: &[u8]) -> Result<Vec<Desc>, String> {
    let mut out = Vec::new();
    let mut i = 0;
    while i < p.len() {
        let tag = p[i];
        let (hdr, len) = if tag & 0x80 == 0 {
            (1, (tag & 7) as usize)
        } else {
            if i + 3 > p.len() {
                return Err(format!("large item header truncated at {}", i));
            }
            (3, u16::from_le_bytes([p[i + 1], p[i + 2]]) as usize)
        };
        if i + hdr + len > p.len() {
            return Err(format!("descriptor at {} (tag {:#x}, length {}) runs past the buffer", i, tag, len));
        }
        out.push(Desc { offset: i, tag, payload: p[i + hdr..i + hdr + len].to_vec() });
        i += hdr + len;
        if tag & 0x80 == 0 && (tag >> 3) == 0x0f {
            // end tag: must be last
            if i != p.len() {
                return Err(format!("bytes after the end tag at {}", i));
            }
            return Ok(out);
        }
    }
    Err("no end tag".into())
}

fn rd(b: &[u8], o: usize, w: usize) -> u64 {
    (0..w).fold(0, |a, i| a | (b[o + i] as u64) << (8 * i))
}

/// decode one descriptor against the caller's values; Err(reason) names the field
pub fn check_desc(d: &Desc, r: &Res) -> Result<(), String> {
    let need = |tag: u8, len: usize| -> Result<(), String> {
        if d.tag != tag {
            return Err(format!("tag {:#x} expected {:#x}", d.tag, tag));
        }
        if d.payload.len() != len {
            return Err(format!("length-field {} expected {}", d.payload.len(), len));
        }
        Ok(())
    };
    let p = &d.payload;
    let eq = |name: &str, got: u64, want: u64| if got == want { Ok(()) } else { Err(format!("{} found={:#x} expected={:#x}", name, got, want)) };
    match r {
        Res::Memory32Fixed { rw, base, len } => {
            need(0x86, 9)?;
            eq("write-status", p[0] as u64, *rw as u64)?;
            eq("base", rd(p, 1, 4), *base as u64)?;
            eq("length", rd(p, 5, 4), *len as u64)
        }
        Res::Io { min, max, align, len } => {
            need(0x47, 7)?;
            eq("decode", p[0] as u64, 1)?;
            eq("min", rd(p, 1, 2), *min as u64)?;
            eq("max", rd(p, 3, 2), *max as u64)?;
            eq("alignment", p[5] as u64, *align as u64)?;
            eq("length", p[6] as u64, *len as u64)
        }
        Res::Interrupt { consumer, edge, active_low, shared, number } => {
            need(0x89, 6)?;
            eq("flags", p[0] as u64, (*consumer as u64) | ((*edge as u64) << 1) | ((*active_low as u64) << 2) | ((*shared as u64) << 3))?;
            eq("table-length", p[1] as u64, 1)?;
            eq("interrupt", rd(p, 2, 4), *number as u64)
        }
        Res::Register(g) => {
            need(0x82, 12)?;
            let want = ref_gas(g);
            for (i, name) in [(0usize, "space-id"), (1, "bit-width"), (2, "bit-offset"), (3, "access-size")] {
                eq(name, p[i] as u64, want[i] as u64)?;
            }
            eq("address", rd(p, 4, 8), rd(&want, 4, 8))
        }
        Res::AddrSpace { width, ty, min, max, translation } => {
            let w = (*width / 8) as usize;
            need(
                match width {
                    16 => 0x88,
                    32 => 0x87,
                    _ => 0x8a,
                },
                3 + 5 * w,
            )?;
            let (t, tf) = match ty {
                AsType::Memory(c, rw) => (0u64, ((*c as u64) << 1) | *rw as u64),
                AsType::Io => (1, 3),
                AsType::Bus => (2, 0),
            };
            eq("resource-type", p[0] as u64, t)?;
            eq("general-flags", p[1] as u64, 0x0c)?;
            eq("type-specific-flags", p[2] as u64, tf)?;
            eq("granularity", rd(p, 3, w), 0)?;
            eq("min", rd(p, 3 + w, w), *min)?;
            eq("max", rd(p, 3 + 2 * w, w), *max)?;
            eq("translation", rd(p, 3 + 3 * w, w), translation.unwrap_or(0))?;
            eq("range-length", rd(p, 3 + 4 * w, w), max - min + 1)
        }
    }
}

pub fn kind_name(r: &Res) -> String {
    match r {
        Res::Memory32Fixed { .. } => "Memory32Fixed".into(),
        Res::Io { .. } => "IO".into(),
        Res::Interrupt { .. } => "Interrupt".into(),
        Res::Register(_) => "Register".into(),
        Res::AddrSpace { width, ty, .. } => format!(
            "AddressSpace<u{}>/{}",
            width,
            match ty {
                AsType::Memory(..) => "memory",
                AsType::Io => "io",
                AsType::Bus => "bus",
            }
        ),
    }
}
