//! Independent recursive-descent AML parser for the term grammar of ACPI 6.5
//! section 20.2, restricted to the opcodes the crate can emit (DESIGN
//! Appendix B). The opcode table is written from the specification. The parser
//! is told nothing about the tree except the arity of invoked method names.

use super::term::{FieldEl, PName, P};
use crate::props::c07::pkglen_decode;
use std::collections::HashMap;

pub type PErr = (usize, String);
pub type PRes<T> = Result<T, PErr>;

pub struct Parser<'a> {
    pub b: &'a [u8],
    pub arity: &'a HashMap<Vec<[u8; 4]>, usize>,
}

fn is_lead(c: u8) -> bool {
    c.is_ascii_uppercase() || c == b'_'
}
fn is_name_char(c: u8) -> bool {
    is_lead(c) || c.is_ascii_digit()
}

impl<'a> Parser<'a> {
    fn byte(&self, i: &mut usize, end: usize) -> PRes<u8> {
        if *i >= end {
            return Err((*i, "unexpected end of the enclosing object".into()));
        }
        let v = self.b[*i];
        *i += 1;
        Ok(v)
    }
    fn peek(&self, i: usize, end: usize) -> Option<u8> {
        if i < end {
            Some(self.b[i])
        } else {
            None
        }
    }
    fn le(&self, i: &mut usize, end: usize, n: usize) -> PRes<u64> {
        if *i + n > end {
            return Err((*i, format!("{}-byte constant runs past the end of the enclosing object", n)));
        }
        let v = (0..n).fold(0u64, |a, k| a | (self.b[*i + k] as u64) << (8 * k));
        *i += n;
        Ok(v)
    }

    /// PkgLength at *i: returns the end offset of the object (must not exceed `end`)
    fn pkg(&self, i: &mut usize, end: usize) -> PRes<usize> {
        let start = *i;
        let (v, used) = pkglen_decode(&self.b[start..end]).map_err(|e| (start, format!("PkgLength: {}", e)))?;
        if v < used {
            return Err((start, "PkgLength smaller than its own encoding".into()));
        }
        let obj_end = start + v;
        if obj_end > end {
            return Err((start, format!("PkgLength {} runs {} bytes past the end of the enclosing object", v, obj_end - end)));
        }
        *i += used;
        Ok(obj_end)
    }
    /// exclusive PkgLength (field widths)
    fn pkg_excl(&self, i: &mut usize, end: usize) -> PRes<u64> {
        let start = *i;
        let (v, used) = pkglen_decode(&self.b[start..end]).map_err(|e| (start, format!("field PkgLength: {}", e)))?;
        *i += used;
        Ok(v as u64)
    }

    fn starts_name(c: u8) -> bool {
        c == 0x5c || c == 0x5e || c == 0x2e || c == 0x2f || is_lead(c)
    }

    pub fn name_string(&self, i: &mut usize, end: usize) -> PRes<PName> {
        let start = *i;
        let mut rooted = false;
        if self.peek(*i, end) == Some(0x5c) {
            rooted = true;
            *i += 1;
        } else if self.peek(*i, end) == Some(0x5e) {
            return Err((start, "parent prefix: the crate cannot emit one".into()));
        }
        let count = match self.peek(*i, end) {
            Some(0x2e) => {
                *i += 1;
                2
            }
            Some(0x2f) => {
                *i += 1;
                let n = self.byte(i, end)? as usize;
                if n == 0 {
                    return Err((start, "MultiNamePrefix with zero segments".into()));
                }
                n
            }
            Some(c) if is_lead(c) => 1,
            _ => return Err((start, "name string expected".into())),
        };
        let mut segs = Vec::with_capacity(count);
        for _ in 0..count {
            if *i + 4 > end {
                return Err((*i, "name segment runs past the end of the enclosing object".into()));
            }
            let s = &self.b[*i..*i + 4];
            if !(is_lead(s[0]) && s[1..].iter().all(|c| is_name_char(*c))) {
                return Err((*i, format!("bad name segment {:02x?}", s)));
            }
            segs.push([s[0], s[1], s[2], s[3]]);
            *i += 4;
        }
        Ok(PName { rooted, segs })
    }

    pub fn term_list(&self, i: &mut usize, end: usize) -> PRes<Vec<P>> {
        let mut v = Vec::new();
        while *i < end {
            v.push(self.term(i, end)?);
        }
        Ok(v)
    }

    pub fn target(&self, i: &mut usize, end: usize) -> PRes<P> {
        if self.peek(*i, end) == Some(0x00) {
            *i += 1;
            return Ok(P::Null);
        }
        self.term(i, end)
    }

    fn boxed(&self, i: &mut usize, end: usize) -> PRes<Box<P>> {
        Ok(Box::new(self.term(i, end)?))
    }

    /// package element: DataRefObject | NameString (never an invocation)
    fn pkg_elem(&self, i: &mut usize, end: usize) -> PRes<P> {
        match self.peek(*i, end) {
            Some(c) if Self::starts_name(c) => Ok(P::NameRef(self.name_string(i, end)?)),
            _ => self.term(i, end),
        }
    }

    fn field_list(&self, i: &mut usize, end: usize) -> PRes<Vec<FieldEl>> {
        let mut v = Vec::new();
        while *i < end {
            match self.b[*i] {
                0x00 => {
                    *i += 1;
                    v.push(FieldEl::Reserved(self.pkg_excl(i, end)?));
                }
                c if is_lead(c) => {
                    if *i + 4 > end {
                        return Err((*i, "field name runs past the end of the field list".into()));
                    }
                    let s = &self.b[*i..*i + 4];
                    if !s[1..].iter().all(|c| is_name_char(*c)) {
                        return Err((*i, "bad field name".into()));
                    }
                    let n = [s[0], s[1], s[2], s[3]];
                    *i += 4;
                    v.push(FieldEl::Named(n, self.pkg_excl(i, end)?));
                }
                c => return Err((*i, format!("unexpected byte {:#04x} in a field list", c))),
            }
        }
        Ok(v)
    }

    pub fn term(&self, i: &mut usize, end: usize) -> PRes<P> {
        let start = *i;
        let op = self.byte(i, end)?;
        Ok(match op {
            0x00 => P::Int(0),
            0x01 => P::Int(1),
            0xff => P::Ones,
            0x0a => P::Int(self.le(i, end, 1)?),
            0x0b => P::Int(self.le(i, end, 2)?),
            0x0c => P::Int(self.le(i, end, 4)?),
            0x0e => P::Int(self.le(i, end, 8)?),
            0x0d => {
                let s = *i;
                while *i < end && self.b[*i] != 0 {
                    if self.b[*i] > 0x7f {
                        return Err((*i, "non-ASCII byte in a string".into()));
                    }
                    *i += 1;
                }
                if *i >= end {
                    return Err((s, "string without terminating NUL".into()));
                }
                let v = self.b[s..*i].to_vec();
                *i += 1;
                P::Str(v)
            }
            0x08 => {
                let n = self.name_string(i, end)?;
                P::Name(n, self.boxed(i, end)?)
            }
            0x10 => {
                let e = self.pkg(i, end)?;
                let n = self.name_string(i, e)?;
                P::Scope(n, self.term_list(i, e)?)
            }
            0x11 => {
                let e = self.pkg(i, end)?;
                let size = self.boxed(i, e)?;
                let data = self.b[*i..e].to_vec();
                *i = e;
                P::Buffer(size, data)
            }
            0x12 => {
                let e = self.pkg(i, end)?;
                let n = self.byte(i, e)?;
                let mut v = Vec::new();
                while *i < e {
                    v.push(self.pkg_elem(i, e)?);
                }
                P::Package(n, v)
            }
            0x13 => {
                let e = self.pkg(i, end)?;
                let n = self.boxed(i, e)?;
                let mut v = Vec::new();
                while *i < e {
                    v.push(self.pkg_elem(i, e)?);
                }
                P::VarPackage(n, v)
            }
            0x14 => {
                let e = self.pkg(i, end)?;
                let n = self.name_string(i, e)?;
                let flags = self.byte(i, e)?;
                P::Method(n, flags, self.term_list(i, e)?)
            }
            0x5b => {
                let ext = self.byte(i, end)?;
                match ext {
                    0x01 => {
                        let n = self.name_string(i, end)?;
                        P::Mutex(n, self.byte(i, end)?)
                    }
                    0x13 => {
                        let s = self.boxed(i, end)?;
                        let idx = self.boxed(i, end)?;
                        let num = self.boxed(i, end)?;
                        P::CreateField(s, idx, num, self.name_string(i, end)?)
                    }
                    0x23 => {
                        let m = self.boxed(i, end)?;
                        P::Acquire(m, self.le(i, end, 2)? as u16)
                    }
                    0x27 => P::Release(self.boxed(i, end)?),
                    0x80 => {
                        let n = self.name_string(i, end)?;
                        let sp = self.byte(i, end)?;
                        let o = self.boxed(i, end)?;
                        P::OpRegion(n, sp, o, self.boxed(i, end)?)
                    }
                    0x81 => {
                        let e = self.pkg(i, end)?;
                        let n = self.name_string(i, e)?;
                        let flags = self.byte(i, e)?;
                        P::Field(n, flags, self.field_list(i, e)?)
                    }
                    0x82 => {
                        let e = self.pkg(i, end)?;
                        let n = self.name_string(i, e)?;
                        P::Device(n, self.term_list(i, e)?)
                    }
                    0x84 => {
                        let e = self.pkg(i, end)?;
                        let n = self.name_string(i, e)?;
                        let level = self.byte(i, e)?;
                        let order = self.le(i, e, 2)? as u16;
                        P::PowerResource(n, level, order, self.term_list(i, e)?)
                    }
                    x => return Err((start, format!("unknown extended opcode 5B {:02X}", x))),
                }
            }
            0x60..=0x67 => P::Local(op - 0x60),
            0x68..=0x6e => P::Arg(op - 0x68),
            0x70 => {
                let v = self.boxed(i, end)?;
                P::Store(v, self.boxed(i, end)?)
            }
            0x72 | 0x73 | 0x74 | 0x77 | 0x79 | 0x7a | 0x7b | 0x7c | 0x7d | 0x7e | 0x7f | 0x84 | 0x85 | 0x88 | 0x9c => {
                let a = self.boxed(i, end)?;
                let b = self.boxed(i, end)?;
                P::Bin(op, a, b, Box::new(self.target(i, end)?))
            }
            0x8a | 0x8f => {
                let a = self.boxed(i, end)?;
                let b = self.boxed(i, end)?;
                P::Bin(op, a, b, Box::new(P::NameRef(self.name_string(i, end)?)))
            }
            0x83 | 0x87 | 0x8e | 0xa4 => P::Un(op, self.boxed(i, end)?),
            0x86 => {
                let o = self.boxed(i, end)?;
                P::Notify(o, self.boxed(i, end)?)
            }
            0x92 => {
                let inner = self.byte(i, end)?;
                if !(0x93..=0x95).contains(&inner) {
                    return Err((start, format!("LNot followed by {:#04x}: not a comparison the crate emits", inner)));
                }
                let l = self.boxed(i, end)?;
                P::Cmp(inner, true, l, self.boxed(i, end)?)
            }
            0x93..=0x95 => {
                let l = self.boxed(i, end)?;
                P::Cmp(op, false, l, self.boxed(i, end)?)
            }
            0x96 | 0x99 => {
                let a = self.boxed(i, end)?;
                P::Conv(op, a, Box::new(self.target(i, end)?))
            }
            0x9e => {
                let s = self.boxed(i, end)?;
                let x = self.boxed(i, end)?;
                let l = self.boxed(i, end)?;
                P::Mid(s, x, l, Box::new(self.target(i, end)?))
            }
            0xa0 => {
                let e = self.pkg(i, end)?;
                let p = self.boxed(i, e)?;
                P::If(p, self.term_list(i, e)?)
            }
            0xa1 => {
                let e = self.pkg(i, end)?;
                P::Else(self.term_list(i, e)?)
            }
            0xa2 => {
                let e = self.pkg(i, end)?;
                let p = self.boxed(i, e)?;
                P::While(p, self.term_list(i, e)?)
            }
            c if Self::starts_name(c) => {
                *i = start;
                let n = self.name_string(i, end)?;
                let k = self.arity.get(&n.segs).copied().unwrap_or(0);
                if k == 0 {
                    P::NameRef(n)
                } else {
                    let mut args = Vec::with_capacity(k);
                    for _ in 0..k {
                        args.push(self.term(i, end)?);
                    }
                    P::Call(n, args)
                }
            }
            x => return Err((start, format!("unknown opcode {:#04x}", x))),
        })
    }
}

/// parse a whole byte string as a TermList
pub fn parse_all(b: &[u8], arity: &HashMap<Vec<[u8; 4]>, usize>) -> PRes<Vec<P>> {
    let p = Parser { b, arity };
    let mut i = 0;
    p.term_list(&mut i, b.len())
}

pub fn variant(p: &P) -> String {
    let d = format!("{:?}", p);
    d.split(|c: char| !c.is_alphanumeric()).next().unwrap_or("?").to_string()
}

/// first difference between two trees: (path, expected variant, found variant)
pub fn first_diff(want: &P, got: &P) -> Option<String> {
    if want == got {
        return None;
    }
    fn kids(p: &P) -> Vec<&P> {
        match p {
            P::Call(_, a) | P::Package(_, a) | P::Scope(_, a) | P::Device(_, a) | P::Method(_, _, a) | P::PowerResource(_, _, _, a) | P::Else(a) => a.iter().collect(),
            P::VarPackage(c, a) | P::If(c, a) | P::While(c, a) => std::iter::once(&**c).chain(a.iter()).collect(),
            P::Buffer(s, _) | P::Name(_, s) | P::Acquire(s, _) | P::Release(s) | P::Un(_, s) => vec![&**s],
            P::OpRegion(_, _, a, b) | P::Cmp(_, _, a, b) | P::Store(a, b) | P::Notify(a, b) | P::Conv(_, a, b) => vec![&**a, &**b],
            P::Bin(_, a, b, c) | P::CreateField(a, b, c, _) => vec![&**a, &**b, &**c],
            P::Mid(a, b, c, d) => vec![&**a, &**b, &**c, &**d],
            _ => vec![],
        }
    }
    if variant(want) != variant(got) {
        return Some(format!("expected:{} found:{}", variant(want), variant(got)));
    }
    let (kw, kg) = (kids(want), kids(got));
    if kw.len() == kg.len() {
        for (a, b) in kw.iter().zip(kg.iter()) {
            if let Some(d) = first_diff(a, b) {
                return Some(d);
            }
        }
        // children equal: the node's own scalar content differs
        return Some(format!("node:{}", variant(want)));
    }
    Some(format!("children-of:{} expected={} found={}", variant(want), kw.len(), kg.len()))
}
