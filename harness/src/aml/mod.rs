pub mod build;
pub mod parse;
pub mod res;
pub mod term;
