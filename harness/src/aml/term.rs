//! Owned AML term trees over every constructor the crate exports, their
//! generator (sort-correct AML), and their normal form `P` (what an
//! independent parser must recover).

use super::res::{gen_res, Res};
use crate::engine::Choices;
use crate::props::c09::{gen_path, PathCase};
use serde::{Deserialize, Serialize};

#[derive(Clone, Debug, PartialEq, Eq, Hash, Serialize, Deserialize)]
pub enum FieldEl {
    Named([u8; 4], u64),
    Reserved(u64),
}

#[derive(Clone, Copy, Debug, PartialEq, Eq, Hash, Serialize, Deserialize)]
pub enum BinKind {
    Add,
    Concat,
    Subtract,
    Multiply,
    ShiftLeft,
    ShiftRight,
    And,
    Nand,
    Or,
    Nor,
    Xor,
    ConcatRes,
    Mod,
    Index,
    ToString,
    CreateDWordField,
    CreateQWordField,
}
pub const BIN_KINDS: [BinKind; 17] = [
    BinKind::Add,
    BinKind::Concat,
    BinKind::Subtract,
    BinKind::Multiply,
    BinKind::ShiftLeft,
    BinKind::ShiftRight,
    BinKind::And,
    BinKind::Nand,
    BinKind::Or,
    BinKind::Nor,
    BinKind::Xor,
    BinKind::ConcatRes,
    BinKind::Mod,
    BinKind::Index,
    BinKind::ToString,
    BinKind::CreateDWordField,
    BinKind::CreateQWordField,
];

#[derive(Clone, Copy, Debug, PartialEq, Eq, Hash, Serialize, Deserialize)]
pub enum CmpKind {
    Equal,
    LessThan,
    GreaterThan,
    NotEqual,
    GreaterEqual,
    LessEqual,
}
pub const CMP_KINDS: [CmpKind; 6] = [CmpKind::Equal, CmpKind::LessThan, CmpKind::GreaterThan, CmpKind::NotEqual, CmpKind::GreaterEqual, CmpKind::LessEqual];

#[derive(Clone, Copy, Debug, PartialEq, Eq, Hash, Serialize, Deserialize)]
pub enum UnKind {
    ObjectType,
    SizeOf,
    Return,
    DeRefOf,
}
pub const UN_KINDS: [UnKind; 4] = [UnKind::ObjectType, UnKind::SizeOf, UnKind::Return, UnKind::DeRefOf];

#[derive(Clone, Debug, PartialEq, Eq, Hash, Serialize, Deserialize)]
pub enum Term {
    Zero,
    One,
    Ones,
    U8(u8),
    U16(u16),
    U32(u32),
    U64(u64),
    Usize(u64),
    /// owned string (AmlString)
    Str(String),
    /// &'static str (AmlStr)
    StaticStr(String),
    /// a Path used as a term (name reference, target, package element)
    Path(PathCase),
    Name(PathCase, Box<Term>),
    /// Name::new_field_name: the raw characters of a name (used as a NameString operand)
    FieldName(String),
    Package(Vec<Term>),
    /// the same package filled element by element through PackageBuilder
    PackageB(Vec<Term>),
    /// VarPackageTerm(count, elements)
    VarPackage(Box<Term>, Vec<Term>),
    Eisa(String),
    Uuid(String),
    /// BufferTerm(size term)
    BufferTerm(Box<Term>),
    BufferData(Vec<u8>),
    ResourceTemplate(Vec<Res>),
    Device(PathCase, Vec<Term>),
    Scope(PathCase, Vec<Term>),
    /// Scope::raw(path, serialised children)
    ScopeRaw(PathCase, Vec<Term>),
    Method(PathCase, u8, bool, Vec<Term>),
    PowerResource(PathCase, u8, u16, Vec<Term>),
    Mutex(PathCase, u8),
    Acquire(PathCase, u16),
    Release(PathCase),
    OpRegion(PathCase, u8, Box<Term>, Box<Term>),
    Field(PathCase, u8, u8, u8, Vec<FieldEl>),
    If(Box<Term>, Vec<Term>),
    Else(Vec<Term>),
    While(Box<Term>, Vec<Term>),
    Cmp(CmpKind, Box<Term>, Box<Term>),
    Arg(u8),
    Local(u8),
    /// Store::new(name/target, value)
    Store(Box<Term>, Box<Term>),
    Notify(Box<Term>, Box<Term>),
    Un(UnKind, Box<Term>),
    /// binary_op::new(target, a, b)
    Bin(BinKind, Box<Term>, Box<Term>, Box<Term>),
    ToBuffer(Box<Term>, Box<Term>),
    ToInteger(Box<Term>, Box<Term>),
    /// CreateField::new(name, source, bit index, bit count)
    CreateField(Box<Term>, Box<Term>, Box<Term>, Box<Term>),
    /// Mid::new(source, index, length, result)
    Mid(Box<Term>, Box<Term>, Box<Term>, Box<Term>),
    MethodCall(PathCase, Vec<Term>),
    /// harness-side filler: a pre-serialised valid AML string of the given body size
    Filler(u32),
}

// ---------------------------------------------------------------------------
// normal form

#[derive(Clone, Debug, PartialEq, Eq, Hash)]
pub struct PName {
    pub rooted: bool,
    pub segs: Vec<[u8; 4]>,
}

#[derive(Clone, Debug, PartialEq, Eq, Hash)]
pub enum P {
    Int(u64),
    Ones,
    Str(Vec<u8>),
    NameRef(PName),
    Call(PName, Vec<P>),
    Null,
    Buffer(Box<P>, Vec<u8>),
    Package(u8, Vec<P>),
    VarPackage(Box<P>, Vec<P>),
    Name(PName, Box<P>),
    Scope(PName, Vec<P>),
    Device(PName, Vec<P>),
    Method(PName, u8, Vec<P>),
    PowerResource(PName, u8, u16, Vec<P>),
    Mutex(PName, u8),
    Acquire(Box<P>, u16),
    Release(Box<P>),
    OpRegion(PName, u8, Box<P>, Box<P>),
    Field(PName, u8, Vec<FieldEl>),
    If(Box<P>, Vec<P>),
    Else(Vec<P>),
    While(Box<P>, Vec<P>),
    /// (opcode 0x93/0x94/0x95, preceded by LNot, left, right)
    Cmp(u8, bool, Box<P>, Box<P>),
    Local(u8),
    Arg(u8),
    Store(Box<P>, Box<P>),
    Notify(Box<P>, Box<P>),
    /// opcode, operand
    Un(u8, Box<P>),
    /// opcode, operand1, operand2, target (or NameString for the CreateXField forms)
    Bin(u8, Box<P>, Box<P>, Box<P>),
    Conv(u8, Box<P>, Box<P>),
    CreateField(Box<P>, Box<P>, Box<P>, PName),
    Mid(Box<P>, Box<P>, Box<P>, Box<P>),
}

pub fn pname(p: &PathCase) -> PName {
    PName {
        rooted: p.rooted,
        segs: p
            .segs
            .iter()
            .map(|s| {
                let b = s.as_bytes();
                [b[0], b[1], b[2], b[3]]
            })
            .collect(),
    }
}

/// ACPI 6.5 20.2.5.4 / 20.2.5.2 opcodes, from the specification's opcode table
pub fn bin_opcode(k: BinKind) -> u8 {
    match k {
        BinKind::Add => 0x72,
        BinKind::Concat => 0x73,
        BinKind::Subtract => 0x74,
        BinKind::Multiply => 0x77,
        BinKind::ShiftLeft => 0x79,
        BinKind::ShiftRight => 0x7a,
        BinKind::And => 0x7b,
        BinKind::Nand => 0x7c,
        BinKind::Or => 0x7d,
        BinKind::Nor => 0x7e,
        BinKind::Xor => 0x7f,
        BinKind::ConcatRes => 0x84,
        BinKind::Mod => 0x85,
        BinKind::Index => 0x88,
        BinKind::ToString => 0x9c,
        BinKind::CreateDWordField => 0x8a,
        BinKind::CreateQWordField => 0x8f,
    }
}
pub fn un_opcode(k: UnKind) -> u8 {
    match k {
        UnKind::ObjectType => 0x8e,
        UnKind::SizeOf => 0x87,
        UnKind::Return => 0xa4,
        UnKind::DeRefOf => 0x83,
    }
}
/// (opcode, inverted): LNotEqual = LNot LEqual, LLessEqual = LNot LGreater, LGreaterEqual = LNot LLess
pub fn cmp_opcode(k: CmpKind) -> (u8, bool) {
    match k {
        CmpKind::Equal => (0x93, false),
        CmpKind::GreaterThan => (0x94, false),
        CmpKind::LessThan => (0x95, false),
        CmpKind::NotEqual => (0x93, true),
        CmpKind::LessEqual => (0x94, true),
        CmpKind::GreaterEqual => (0x95, true),
    }
}

/// independent EISA compression (ACPI 6.5 19.3.4): value as decoded from the AML integer
pub fn eisa_value(id: &str) -> u64 {
    let b = id.as_bytes();
    let c = |x: u8| (x - 0x40) as u32;
    let h = |x: u8| (x as char).to_digit(16).unwrap();
    let b0 = (c(b[0]) << 2) | (c(b[1]) >> 3);
    let b1 = ((c(b[1]) & 7) << 5) | c(b[2]);
    let b2 = (h(b[3]) << 4) | h(b[4]);
    let b3 = (h(b[5]) << 4) | h(b[6]);
    (b0 | (b1 << 8) | (b2 << 16) | (b3 << 24)) as u64
}

/// independent ToUUID (ACPI 6.5 19.6.150)
pub fn uuid_bytes(u: &str) -> Vec<u8> {
    let h: Vec<u8> = u.bytes().filter(|c| *c != b'-').map(|c| (c as char).to_digit(16).unwrap() as u8).collect();
    let byte = |i: usize| (h[2 * i] << 4) | h[2 * i + 1];
    let order = [3usize, 2, 1, 0, 5, 4, 7, 6, 8, 9, 10, 11, 12, 13, 14, 15];
    order.iter().map(|i| byte(*i)).collect()
}

pub fn filler_bytes(n: u32) -> Vec<u8> {
    // a valid AML string object occupying exactly n + 2 bytes
    let mut v = vec![0x0d];
    v.extend((0..n).map(|i| b'a' + (i % 26) as u8));
    v.push(0);
    v
}

fn norm_list(ts: &[Term]) -> Vec<P> {
    ts.iter().map(norm).collect()
}

/// target position: the crate's users pass ZERO for "no target" (NullName)
pub fn norm_target(t: &Term) -> P {
    match t {
        Term::Zero | Term::U8(0) => P::Null,
        t => norm(t),
    }
}

pub fn norm(t: &Term) -> P {
    match t {
        Term::Zero => P::Int(0),
        Term::One => P::Int(1),
        Term::Ones => P::Ones,
        Term::U8(v) => P::Int(*v as u64),
        Term::U16(v) => P::Int(*v as u64),
        Term::U32(v) => P::Int(*v as u64),
        Term::U64(v) | Term::Usize(v) => P::Int(*v),
        Term::Str(s) | Term::StaticStr(s) => P::Str(s.as_bytes().to_vec()),
        Term::Path(p) => P::NameRef(pname(p)),
        Term::FieldName(s) => {
            let b = s.as_bytes();
            P::NameRef(PName { rooted: false, segs: vec![[b[0], b[1], b[2], b[3]]] })
        }
        Term::Name(p, v) => P::Name(pname(p), Box::new(norm(v))),
        Term::Package(e) | Term::PackageB(e) => P::Package(e.len() as u8, norm_list(e)),
        Term::VarPackage(c, e) => P::VarPackage(Box::new(norm(c)), norm_list(e)),
        Term::Eisa(s) => P::Int(eisa_value(s)),
        Term::Uuid(s) => P::Buffer(Box::new(P::Int(16)), uuid_bytes(s)),
        Term::BufferTerm(s) => P::Buffer(Box::new(norm(s)), vec![]),
        Term::BufferData(d) => P::Buffer(Box::new(P::Int(d.len() as u64)), d.clone()),
        Term::ResourceTemplate(rs) => {
            let payload = super::res::template_payload(rs);
            P::Buffer(Box::new(P::Int(payload.len() as u64)), payload)
        }
        Term::Device(p, c) => P::Device(pname(p), norm_list(c)),
        Term::Scope(p, c) | Term::ScopeRaw(p, c) => P::Scope(pname(p), norm_list(c)),
        Term::Method(p, args, ser, c) => P::Method(pname(p), *args | ((*ser as u8) << 3), norm_list(c)),
        Term::PowerResource(p, l, o, c) => P::PowerResource(pname(p), *l, *o, norm_list(c)),
        Term::Mutex(p, s) => P::Mutex(pname(p), *s),
        Term::Acquire(p, t) => P::Acquire(Box::new(P::NameRef(pname(p))), *t),
        Term::Release(p) => P::Release(Box::new(P::NameRef(pname(p)))),
        Term::OpRegion(p, sp, o, l) => P::OpRegion(pname(p), *sp, Box::new(norm(o)), Box::new(norm(l))),
        // field flags: bits 3:0 access type, bit 4 lock rule, bits 6:5 update rule
        Term::Field(p, acc, lock, upd, els) => P::Field(pname(p), *acc | (*lock << 4) | (*upd << 5), els.clone()),
        Term::If(p, b) => P::If(Box::new(norm(p)), norm_list(b)),
        Term::Else(b) => P::Else(norm_list(b)),
        Term::While(p, b) => P::While(Box::new(norm(p)), norm_list(b)),
        Term::Cmp(k, l, r) => {
            let (op, inv) = cmp_opcode(*k);
            P::Cmp(op, inv, Box::new(norm(l)), Box::new(norm(r)))
        }
        Term::Arg(n) => P::Arg(*n),
        Term::Local(n) => P::Local(*n),
        // StoreOp TermArg SuperName
        Term::Store(name, value) => P::Store(Box::new(norm(value)), Box::new(norm(name))),
        Term::Notify(o, v) => P::Notify(Box::new(norm(o)), Box::new(norm(v))),
        Term::Un(k, a) => P::Un(un_opcode(*k), Box::new(norm(a))),
        Term::Bin(k, target, a, b) => {
            let tgt = match k {
                BinKind::CreateDWordField | BinKind::CreateQWordField => norm(target),
                _ => norm_target(target),
            };
            P::Bin(bin_opcode(*k), Box::new(norm(a)), Box::new(norm(b)), Box::new(tgt))
        }
        Term::ToBuffer(target, a) => P::Conv(0x96, Box::new(norm(a)), Box::new(norm_target(target))),
        Term::ToInteger(target, a) => P::Conv(0x99, Box::new(norm(a)), Box::new(norm_target(target))),
        Term::CreateField(name, src, idx, num) => {
            let n = match norm(name) {
                P::NameRef(n) => n,
                other => panic!("harness: CreateField name must be a name, got {:?}", other),
            };
            P::CreateField(Box::new(norm(src)), Box::new(norm(idx)), Box::new(norm(num)), n)
        }
        Term::Mid(s, i, l, r) => P::Mid(Box::new(norm(s)), Box::new(norm(i)), Box::new(norm(l)), Box::new(norm_target(r))),
        Term::MethodCall(p, args) => {
            if args.is_empty() {
                P::NameRef(pname(p))
            } else {
                P::Call(pname(p), norm_list(args))
            }
        }
        Term::Filler(n) => P::Str(filler_bytes(*n)[1..(*n as usize + 1)].to_vec()),
    }
}

/// arity table the parser is entitled to: method name (last segment) -> argument count
pub fn collect_arities(t: &Term, out: &mut std::collections::HashMap<Vec<[u8; 4]>, usize>) {
    let mut kids: Vec<&Term> = Vec::new();
    match t {
        Term::MethodCall(p, args) => {
            if !args.is_empty() {
                out.insert(pname(p).segs, args.len());
            }
            kids.extend(args.iter());
        }
        Term::Name(_, v) => kids.push(v),
        Term::Package(e) | Term::PackageB(e) => kids.extend(e.iter()),
        Term::VarPackage(c, e) => {
            kids.push(c);
            kids.extend(e.iter());
        }
        Term::BufferTerm(s) => kids.push(s),
        Term::Device(_, c) | Term::Scope(_, c) | Term::ScopeRaw(_, c) | Term::Method(_, _, _, c) | Term::PowerResource(_, _, _, c) | Term::Else(c) => kids.extend(c.iter()),
        Term::OpRegion(_, _, a, b) | Term::Cmp(_, a, b) | Term::Store(a, b) | Term::Notify(a, b) | Term::ToBuffer(a, b) | Term::ToInteger(a, b) => {
            kids.push(a);
            kids.push(b);
        }
        Term::If(p, b) | Term::While(p, b) => {
            kids.push(p);
            kids.extend(b.iter());
        }
        Term::Un(_, a) => kids.push(a),
        Term::Bin(_, a, b, c) => {
            kids.push(a);
            kids.push(b);
            kids.push(c);
        }
        Term::CreateField(a, b, c, d) | Term::Mid(a, b, c, d) => {
            kids.push(a);
            kids.push(b);
            kids.push(c);
            kids.push(d);
        }
        _ => {}
    }
    for k in kids {
        collect_arities(k, out);
    }
}

// ---------------------------------------------------------------------------
// generator

pub struct Gen<'a, 'b> {
    pub s: &'a mut Choices<'b>,
    pub budget: i32,
}

const STATIC_STRS: [&str; 6] = ["", "a", "PNP0A08", "Hello, ACPI", "x86_64", "0123456789abcdefghijklmnopqrstuvwxyzABCDEFGHIJKLMNOPQRSTUVWXYZ!"];

impl Gen<'_, '_> {
    fn path(&mut self) -> PathCase {
        let mut p = gen_path(self.s);
        p.segs.truncate(5);
        // names of generated objects never collide with the method-call pool "MTHn"
        for s in p.segs.iter_mut() {
            if s.starts_with("MTH") {
                *s = "NTH_".into();
            }
        }
        p
    }
    fn call_path(&mut self, nargs: usize) -> PathCase {
        let mut p = self.path();
        let last = p.segs.len() - 1;
        p.segs[last] = format!("MTH{}", nargs);
        p
    }
    fn size_hint(&mut self) -> u32 {
        // filler sizes around every PkgLength width boundary
        match self.s.below(10) {
            0 => 50 + self.s.below(16),
            1 => 4070 + self.s.below(30),
            2 => 200 + self.s.below(100),
            _ => self.s.below(30),
        }
    }
    pub fn int(&mut self) -> Term {
        match self.s.below(9) {
            0 => Term::Zero,
            1 => Term::One,
            2 => Term::U8(self.s.u8()),
            3 => Term::U16(self.s.u16()),
            4 => Term::U32(self.s.u32()),
            5 => Term::U64(self.s.u64()),
            6 => Term::Usize(self.s.u64()),
            7 => Term::Ones,
            _ => Term::U8(self.s.byte()),
        }
    }
    fn string(&mut self) -> String {
        let n = self.size_hint().min(300);
        (0..n).map(|_| (0x20 + self.s.below(0x5f) as u8) as char).collect()
    }
    pub fn data(&mut self, depth: u32) -> Term {
        self.budget -= 1;
        let top = if depth == 0 || self.budget <= 0 { 6 } else { 11 };
        match self.s.below(top) {
            0 | 1 => self.int(),
            2 => Term::Str(self.string()),
            3 => Term::StaticStr(STATIC_STRS[self.s.below(6) as usize].to_string()),
            4 => {
                let n = self.size_hint().min(600);
                Term::BufferData((0..n).map(|_| self.s.byte()).collect())
            }
            5 => match self.s.below(3) {
                0 => Term::Eisa(gen_eisa(self.s)),
                1 => Term::Uuid(gen_uuid(self.s)),
                _ => Term::BufferTerm(Box::new(self.int())),
            },
            6 | 7 => {
                let n = self.s.below(6);
                let e: Vec<Term> = (0..n).map(|_| self.pkg_elem(depth - 1)).collect();
                if self.s.bool() {
                    Term::Package(e)
                } else {
                    Term::PackageB(e)
                }
            }
            8 => {
                let n = self.s.below(4);
                let e: Vec<Term> = (0..n).map(|_| self.pkg_elem(depth - 1)).collect();
                let c = match self.s.below(3) {
                    0 => Term::Local(self.s.below(8) as u8),
                    1 => Term::Arg(self.s.below(7) as u8),
                    _ => Term::U8(n as u8),
                };
                Term::VarPackage(Box::new(c), e)
            }
            9 => {
                let n = self.s.below(5);
                Term::ResourceTemplate((0..n).map(|_| gen_res(self.s)).collect())
            }
            _ => Term::Filler(self.size_hint()),
        }
    }
    fn pkg_elem(&mut self, depth: u32) -> Term {
        if self.s.chance(40) {
            Term::Path(self.path())
        } else {
            self.data(depth)
        }
    }
    pub fn supername(&mut self) -> Term {
        match self.s.below(3) {
            0 => Term::Local(self.s.below(8) as u8),
            1 => Term::Arg(self.s.below(7) as u8),
            _ => Term::Path(self.path()),
        }
    }
    pub fn target(&mut self) -> Term {
        if self.s.below(4) == 0 {
            Term::Zero
        } else {
            self.supername()
        }
    }
    /// TermArg: an expression that yields a value
    pub fn expr(&mut self, depth: u32) -> Term {
        self.budget -= 1;
        if depth == 0 || self.budget <= 0 {
            return match self.s.below(4) {
                0 => self.int(),
                1 => Term::Local(self.s.below(8) as u8),
                2 => Term::Arg(self.s.below(7) as u8),
                _ => Term::Path(self.path()),
            };
        }
        let d = depth - 1;
        match self.s.below(12) {
            0 => self.int(),
            1 => self.supername(),
            2 => self.data(d),
            3 | 4 => {
                let k = BIN_KINDS[self.s.below(15) as usize]; // without the CreateXField forms
                Term::Bin(k, Box::new(self.target()), Box::new(self.expr(d)), Box::new(self.expr(d)))
            }
            5 => Term::Cmp(CMP_KINDS[self.s.below(6) as usize], Box::new(self.expr(d)), Box::new(self.expr(d))),
            6 => {
                let k = [UnKind::ObjectType, UnKind::SizeOf, UnKind::DeRefOf][self.s.below(3) as usize];
                let a = if k == UnKind::DeRefOf { self.expr(d) } else { self.supername() };
                Term::Un(k, Box::new(a))
            }
            7 => {
                if self.s.bool() {
                    Term::ToBuffer(Box::new(self.target()), Box::new(self.expr(d)))
                } else {
                    Term::ToInteger(Box::new(self.target()), Box::new(self.expr(d)))
                }
            }
            8 => Term::Mid(Box::new(self.expr(d)), Box::new(self.expr(d)), Box::new(self.expr(d)), Box::new(self.target())),
            9 | 10 => {
                let n = self.s.below(8) as usize;
                let p = self.call_path(n);
                Term::MethodCall(p, (0..n).map(|_| self.expr(d.min(1))).collect())
            }
            _ => Term::Store(Box::new(self.supername()), Box::new(self.expr(d))),
        }
    }
    fn body(&mut self, depth: u32) -> Vec<Term> {
        let n = if self.budget <= 0 { 0 } else { self.s.below(5) };
        (0..n).map(|_| self.stmt(depth)).collect()
    }
    fn field_els(&mut self) -> Vec<FieldEl> {
        let n = self.s.below(8);
        (0..n)
            .map(|_| {
                let w = match self.s.below(6) {
                    0 => 62 + self.s.below(4) as u64,
                    1 => 4090 + self.s.below(10) as u64,
                    2 => (1 << 20) - 3 + self.s.below(6) as u64,
                    3 => self.s.u32() as u64 & 0x0fff_ffff,
                    _ => self.s.below(64) as u64,
                };
                if self.s.bool() {
                    let seg = crate::props::c09::gen_seg(self.s);
                    let b = seg.as_bytes();
                    FieldEl::Named([b[0], b[1], b[2], b[3]], w)
                } else {
                    FieldEl::Reserved(w)
                }
            })
            .collect()
    }
    /// TermObj: anything that may appear in a TermList
    pub fn stmt(&mut self, depth: u32) -> Term {
        self.budget -= 1;
        if depth == 0 || self.budget <= 0 {
            return match self.s.below(5) {
                0 => Term::Name(self.path(), Box::new(self.int())),
                1 => Term::Un(UnKind::Return, Box::new(self.int())),
                2 => Term::Mutex(self.path(), self.s.below(16) as u8),
                3 => Term::Release(self.path()),
                _ => Term::Filler(self.size_hint()),
            };
        }
        let d = depth - 1;
        match self.s.below(24) {
            0 | 1 => Term::Name(self.path(), Box::new(self.data(d))),
            2 => Term::Device(self.path(), self.body(d)),
            3 => {
                if self.s.bool() {
                    Term::Scope(self.path(), self.body(d))
                } else {
                    Term::ScopeRaw(self.path(), self.body(d))
                }
            }
            4 | 5 => Term::Method(self.path(), self.s.below(8) as u8, self.s.bool(), self.body(d)),
            6 => Term::PowerResource(self.path(), self.s.u8(), self.s.u16(), self.body(d)),
            7 => Term::Mutex(self.path(), self.s.below(16) as u8),
            8 => Term::Acquire(self.path(), self.s.u16()),
            9 => Term::Release(self.path()),
            10 => Term::OpRegion(self.path(), self.s.below(10) as u8, Box::new(self.expr(0)), Box::new(self.expr(0))),
            11 => {
                let els = self.field_els();
                Term::Field(self.path(), self.s.below(6) as u8, self.s.below(2) as u8, self.s.below(3) as u8, els)
            }
            12 | 13 => Term::If(Box::new(self.expr(d.min(2))), self.body(d)),
            14 => Term::Else(self.body(d)),
            15 => Term::While(Box::new(self.expr(d.min(2))), self.body(d)),
            16 => Term::Store(Box::new(self.supername()), Box::new(self.expr(d.min(2)))),
            17 => Term::Notify(Box::new(self.supername()), Box::new(self.expr(1))),
            18 => Term::Un(UnKind::Return, Box::new(self.expr(d.min(2)))),
            19 => {
                let name = if self.s.bool() { Term::Path(self.path()) } else { Term::FieldName(crate::props::c09::gen_seg(self.s)) };
                Term::CreateField(Box::new(name), Box::new(self.supername()), Box::new(self.expr(1)), Box::new(self.expr(1)))
            }
            20 => {
                let k = if self.s.bool() { BinKind::CreateDWordField } else { BinKind::CreateQWordField };
                let name = if self.s.bool() { Term::Path(self.path()) } else { Term::FieldName(crate::props::c09::gen_seg(self.s)) };
                Term::Bin(k, Box::new(name), Box::new(self.supername()), Box::new(self.expr(1)))
            }
            21 => Term::Filler(self.size_hint()),
            _ => self.expr(d.min(2)),
        }
    }
}

pub fn gen_eisa(s: &mut Choices) -> String {
    let mut v = Vec::new();
    for _ in 0..3 {
        v.push(b'A' + s.below(26) as u8);
    }
    for _ in 0..4 {
        v.push(b"0123456789ABCDEF"[s.below(16) as usize]);
    }
    String::from_utf8(v).unwrap()
}

pub fn gen_uuid(s: &mut Choices) -> String {
    let mut t = String::new();
    for i in 0..32 {
        if i == 8 || i == 12 || i == 16 || i == 20 {
            t.push('-');
        }
        t.push(b"0123456789abcdef"[s.below(16) as usize] as char);
    }
    t
}

/// a whole tree: a TermList-level object
pub fn gen_tree(s: &mut Choices) -> Term {
    let depth = 2 + s.below(4);
    let shape = s.below(6);
    let mut g = Gen { s, budget: 80 };
    match shape {
        0 => g.stmt(depth),
        1 => {
            let p = g.path();
            let b = g.body(depth);
            Term::Scope(p, vec![Term::Device(PathCase { rooted: false, segs: vec!["DEV0".into()] }, b)])
        }
        2 => {
            let p = g.path();
            let pred = g.expr(2);
            let b = g.body(depth);
            let e = g.body(depth);
            Term::Method(p, 3, false, vec![Term::If(Box::new(pred), b), Term::Else(e)])
        }
        3 => {
            let p = g.path();
            let b = g.body(depth);
            Term::Scope(p, vec![Term::Method(PathCase { rooted: false, segs: vec!["MET0".into()] }, 1, true, vec![Term::While(Box::new(Term::One), b)])])
        }
        _ => {
            let p = g.path();
            let b = g.body(depth);
            if b.is_empty() {
                g.stmt(depth)
            } else {
                Term::Scope(p, b)
            }
        }
    }
}

/// constructor label for coverage histograms
pub fn label(t: &Term) -> String {
    match t {
        Term::Bin(k, ..) => format!("{:?}", k),
        Term::Cmp(k, ..) => format!("{:?}", k),
        Term::Un(k, ..) => format!("{:?}", k),
        Term::OpRegion(_, sp, ..) => format!("OpRegion:space{}", sp),
        t => {
            let d = format!("{:?}", t);
            d.split(|c: char| !c.is_alphanumeric()).next().unwrap_or("?").to_string()
        }
    }
}

pub fn walk_terms<'a>(t: &'a Term, f: &mut dyn FnMut(&'a Term, u32), depth: u32) {
    f(t, depth);
    let nested = matches!(
        t,
        Term::Device(..) | Term::Scope(..) | Term::ScopeRaw(..) | Term::Method(..) | Term::PowerResource(..) | Term::If(..) | Term::Else(..) | Term::While(..) | Term::Package(..) | Term::PackageB(..) | Term::VarPackage(..)
    );
    let d = depth + nested as u32;
    match t {
        Term::Name(_, v) | Term::BufferTerm(v) | Term::Un(_, v) => walk_terms(v, f, d),
        Term::Package(e) | Term::PackageB(e) | Term::Device(_, e) | Term::Scope(_, e) | Term::ScopeRaw(_, e) | Term::Method(_, _, _, e) | Term::PowerResource(_, _, _, e) | Term::Else(e) | Term::MethodCall(_, e) => {
            for x in e {
                walk_terms(x, f, d)
            }
        }
        Term::VarPackage(c, e) => {
            walk_terms(c, f, d);
            for x in e {
                walk_terms(x, f, d)
            }
        }
        Term::If(p, b) | Term::While(p, b) => {
            walk_terms(p, f, d);
            for x in b {
                walk_terms(x, f, d)
            }
        }
        Term::OpRegion(_, _, a, b) | Term::Cmp(_, a, b) | Term::Store(a, b) | Term::Notify(a, b) | Term::ToBuffer(a, b) | Term::ToInteger(a, b) => {
            walk_terms(a, f, d);
            walk_terms(b, f, d);
        }
        Term::Bin(_, a, b, c) => {
            walk_terms(a, f, d);
            walk_terms(b, f, d);
            walk_terms(c, f, d);
        }
        Term::CreateField(a, b, c, e) | Term::Mid(a, b, c, e) => {
            walk_terms(a, f, d);
            walk_terms(b, f, d);
            walk_terms(c, f, d);
            walk_terms(e, f, d);
        }
        _ => {}
    }
}
