//! Builds REAL nested crate objects from an owned `Term` by continuation
//! passing (children must outlive parents: `&'a dyn Aml`), and serialises them.

use super::res::{AsType, Res};
use super::term::*;
use crate::props::c09::PathCase;
use crate::tables::drive::mk_gas;
use acpi_tables::{aml, Aml, AmlSink};
use std::collections::HashMap;
use std::sync::{Mutex, OnceLock};

/// harness-side Aml: pre-serialised bytes (filler, Scope::raw output)
pub struct Raw(pub Vec<u8>);
impl Aml for Raw {
    fn to_aml_bytes(&self, sink: &mut dyn AmlSink) {
        sink.vec(&self.0);
    }
}

/// harness-side Aml: concatenation (VarPackage = count followed by elements)
pub struct Seq<'a>(pub Vec<&'a dyn Aml>);
impl Aml for Seq<'_> {
    fn to_aml_bytes(&self, sink: &mut dyn AmlSink) {
        for a in &self.0 {
            a.to_aml_bytes(sink);
        }
    }
}

pub fn intern(s: &str) -> &'static str {
    static POOL: OnceLock<Mutex<HashMap<String, &'static str>>> = OnceLock::new();
    let m = POOL.get_or_init(|| Mutex::new(HashMap::new()));
    let mut g = m.lock().unwrap();
    if let Some(x) = g.get(s) {
        return x;
    }
    let l: &'static str = Box::leak(s.to_string().into_boxed_str());
    g.insert(s.to_string(), l);
    l
}

pub fn path(p: &PathCase) -> aml::Path {
    aml::Path::new(&p.text())
}

fn space(i: u8) -> aml::OpRegionSpace {
    use aml::OpRegionSpace as S;
    [S::SystemMemory, S::SystemIO, S::PCIConfig, S::EmbeddedControl, S::SMBus, S::SystemCMOS, S::PciBarTarget, S::IPMI, S::GeneralPurposeIO, S::GenericSerialBus][i as usize]
}

fn cacheable(c: u8) -> aml::AddressSpaceCacheable {
    use aml::AddressSpaceCacheable as C;
    [C::NotCacheable, C::Cacheable, C::WriteCombining, C::PreFetchable][c as usize]
}

pub fn with_res(r: &Res, k: &mut dyn FnMut(&dyn Aml)) {
    match r {
        Res::Memory32Fixed { rw, base, len } => k(&aml::Memory32Fixed::new(*rw, *base, *len)),
        Res::Io { min, max, align, len } => k(&aml::IO::new(*min, *max, *align, *len)),
        Res::Interrupt { consumer, edge, active_low, shared, number } => k(&aml::Interrupt::new(*consumer, *edge, *active_low, *shared, *number)),
        Res::Register(g) => k(&aml::Register::new(mk_gas(g))),
        Res::AddrSpace { width, ty, min, max, translation } => match width {
            16 => {
                let (mn, mx, tr) = (*min as u16, *max as u16, translation.map(|t| t as u16));
                match ty {
                    AsType::Memory(c, rw) => k(&aml::AddressSpace::new_memory(cacheable(*c), *rw, mn, mx, tr)),
                    AsType::Io => k(&aml::AddressSpace::new_io(mn, mx, tr)),
                    AsType::Bus => k(&aml::AddressSpace::new_bus_number(mn, mx)),
                }
            }
            32 => {
                let (mn, mx, tr) = (*min as u32, *max as u32, translation.map(|t| t as u32));
                match ty {
                    AsType::Memory(c, rw) => k(&aml::AddressSpace::new_memory(cacheable(*c), *rw, mn, mx, tr)),
                    AsType::Io => k(&aml::AddressSpace::new_io(mn, mx, tr)),
                    AsType::Bus => k(&aml::AddressSpace::new_bus_number(mn, mx)),
                }
            }
            _ => {
                let (mn, mx, tr) = (*min, *max, *translation);
                match ty {
                    AsType::Memory(c, rw) => k(&aml::AddressSpace::new_memory(cacheable(*c), *rw, mn, mx, tr)),
                    AsType::Io => k(&aml::AddressSpace::new_io(mn, mx, tr)),
                    AsType::Bus => k(&aml::AddressSpace::new_bus_number(mn, mx)),
                }
            }
        },
    }
}

pub fn res_obj(r: &Res) -> Box<dyn Aml> {
    match r {
        Res::Memory32Fixed { rw, base, len } => Box::new(aml::Memory32Fixed::new(*rw, *base, *len)),
        Res::Io { min, max, align, len } => Box::new(aml::IO::new(*min, *max, *align, *len)),
        Res::Interrupt { consumer, edge, active_low, shared, number } => Box::new(aml::Interrupt::new(*consumer, *edge, *active_low, *shared, *number)),
        Res::Register(g) => Box::new(aml::Register::new(mk_gas(g))),
        Res::AddrSpace { width, ty, min, max, translation } => match width {
            16 => {
                let (mn, mx, tr) = (*min as u16, *max as u16, translation.map(|t| t as u16));
                match ty {
                    AsType::Memory(c, rw) => Box::new(aml::AddressSpace::new_memory(cacheable(*c), *rw, mn, mx, tr)),
                    AsType::Io => Box::new(aml::AddressSpace::new_io(mn, mx, tr)),
                    AsType::Bus => Box::new(aml::AddressSpace::new_bus_number(mn, mx)),
                }
            }
            32 => {
                let (mn, mx, tr) = (*min as u32, *max as u32, translation.map(|t| t as u32));
                match ty {
                    AsType::Memory(c, rw) => Box::new(aml::AddressSpace::new_memory(cacheable(*c), *rw, mn, mx, tr)),
                    AsType::Io => Box::new(aml::AddressSpace::new_io(mn, mx, tr)),
                    AsType::Bus => Box::new(aml::AddressSpace::new_bus_number(mn, mx)),
                }
            }
            _ => {
                let (mn, mx, tr) = (*min, *max, *translation);
                match ty {
                    AsType::Memory(c, rw) => Box::new(aml::AddressSpace::new_memory(cacheable(*c), *rw, mn, mx, tr)),
                    AsType::Io => Box::new(aml::AddressSpace::new_io(mn, mx, tr)),
                    AsType::Bus => Box::new(aml::AddressSpace::new_bus_number(mn, mx)),
                }
            }
        },
    }
}

fn with_res_list(rs: &[Res], k: &mut dyn FnMut(Vec<&dyn Aml>)) {
    // descriptors are self-contained objects: build them all, then lend references
    let objs: Vec<Box<dyn Aml>> = rs.iter().map(res_obj).collect();
    k(objs.iter().map(|b| &**b).collect())
}

/// self-contained terms (no borrowed children) as owned objects
fn boxed(t: &Term) -> Option<Box<dyn Aml>> {
    Some(match t {
        Term::Zero => Box::new(aml::Zero {}),
        Term::One => Box::new(aml::One {}),
        Term::Ones => Box::new(aml::Ones {}),
        Term::U8(v) => Box::new(*v),
        Term::U16(v) => Box::new(*v),
        Term::U32(v) => Box::new(*v),
        Term::U64(v) => Box::new(*v),
        Term::Usize(v) => Box::new(*v as usize),
        Term::Str(s) => Box::new(s.clone()),
        Term::StaticStr(s) => Box::new(intern(s)),
        Term::Path(p) => Box::new(path(p)),
        Term::FieldName(s) => Box::new(aml::Name::new_field_name(s)),
        Term::Eisa(s) => Box::new(aml::EISAName::new(s)),
        Term::Uuid(s) => Box::new(aml::Uuid::new(s)),
        Term::BufferData(d) => Box::new(aml::BufferData::new(d.clone())),
        Term::Mutex(p, s) => Box::new(aml::Mutex::new(path(p), *s)),
        Term::Acquire(p, t) => Box::new(aml::Acquire::new(path(p), *t)),
        Term::Release(p) => Box::new(aml::Release::new(path(p))),
        Term::Arg(n) => Box::new(aml::Arg(*n)),
        Term::Local(n) => Box::new(aml::Local(*n)),
        Term::Filler(n) => Box::new(Raw(filler_bytes(*n))),
        _ => return None,
    })
}

pub fn with_list<'a>(ts: &[Term], acc: Vec<&'a dyn Aml>, k: &mut dyn FnMut(Vec<&dyn Aml>)) {
    if ts.len() > 4 {
        // long lists of self-contained terms: linear time, no recursion
        let objs: Vec<Option<Box<dyn Aml>>> = ts.iter().map(boxed).collect();
        if objs.iter().all(|o| o.is_some()) {
            let mut v: Vec<&dyn Aml> = acc.clone();
            for o in &objs {
                v.push(&**o.as_ref().unwrap());
            }
            return k(v);
        }
    }
    match ts.split_first() {
        None => k(acc),
        Some((t, rest)) => with_aml(t, &mut |o: &dyn Aml| {
            let mut v: Vec<&dyn Aml> = acc.clone();
            v.push(o);
            with_list(rest, v, k)
        }),
    }
}

fn with2(a: &Term, b: &Term, k: &mut dyn FnMut(&dyn Aml, &dyn Aml)) {
    with_aml(a, &mut |x| with_aml(b, &mut |y| k(x, y)))
}
fn with3(a: &Term, b: &Term, c: &Term, k: &mut dyn FnMut(&dyn Aml, &dyn Aml, &dyn Aml)) {
    with_aml(a, &mut |x| with_aml(b, &mut |y| with_aml(c, &mut |z| k(x, y, z))))
}

fn field_entries(els: &[FieldEl]) -> Vec<aml::FieldEntry> {
    els.iter()
        .map(|e| match e {
            FieldEl::Named(n, w) => aml::FieldEntry::Named(*n, *w as usize),
            FieldEl::Reserved(w) => aml::FieldEntry::Reserved(*w as usize),
        })
        .collect()
}

/// construct the real object for `t` and hand it to `k`
pub fn with_aml(t: &Term, k: &mut dyn FnMut(&dyn Aml)) {
    match t {
        Term::Zero => k(&aml::ZERO),
        Term::One => k(&aml::ONE),
        Term::Ones => k(&aml::ONES),
        Term::U8(v) => k(v),
        Term::U16(v) => k(v),
        Term::U32(v) => k(v),
        Term::U64(v) => k(v),
        Term::Usize(v) => k(&(*v as usize)),
        Term::Str(s) => k(s),
        Term::StaticStr(s) => {
            let st: &'static str = intern(s);
            k(&st)
        }
        Term::Path(p) => k(&path(p)),
        Term::FieldName(s) => k(&aml::Name::new_field_name(s)),
        Term::Name(p, v) => with_aml(v, &mut |inner| k(&aml::Name::new(path(p), inner))),
        Term::Package(es) => with_list(es, Vec::new(), &mut |v| k(&aml::Package::new(v))),
        Term::PackageB(es) => {
            // both public ways to obtain an empty builder
            let mut pb = if es.len() % 2 == 0 { aml::PackageBuilder::new() } else { aml::PackageBuilder::default() };
            for (i, e) in es.iter().enumerate() {
                // a refused element (Arg7/Local8 assert before their first byte) must leave the
                // builder exactly as it was: injected so that every oracle sees a reused builder
                if i == 1 && es.len() % 4 >= 2 {
                    let r = std::panic::catch_unwind(std::panic::AssertUnwindSafe(|| if es.len() % 8 >= 4 { pb.add_element(&aml::Arg(7)) } else { pb.add_element(&aml::Local(8)) }));
                    assert!(r.is_err(), "Arg7/Local8 accepted as a package element");
                }
                with_aml(e, &mut |x| pb.add_element(x));
                if i == 0 {
                    peek(&pb); // a builder may be serialised before it is complete
                }
            }
            if es.len() == 255 {
                // A 256th element is refused (C18) -- by add_element today, but a crate may as well
                // accept the call and refuse at serialisation. So the attempt is made on a second
                // builder filled the same way: if it refused there, that builder (which has refused
                // something and must hold its 255 unchanged) is the one judged; otherwise the first.
                let mut pb2 = aml::PackageBuilder::new();
                for e in es.iter() {
                    with_aml(e, &mut |x| pb2.add_element(x));
                }
                if std::panic::catch_unwind(std::panic::AssertUnwindSafe(|| pb2.add_element(&0x77u8))).is_err() {
                    return k(&pb2);
                }
            }
            k(&pb)
        }
        Term::VarPackage(c, es) => with_aml(c, &mut |cnt| {
            with_list(es, vec![cnt], &mut |v| {
                let seq = Seq(v);
                k(&aml::VarPackageTerm::new(&seq))
            })
        }),
        Term::Eisa(s) => k(&aml::EISAName::new(s)),
        Term::Uuid(s) => k(&aml::Uuid::new(s)),
        Term::BufferTerm(s) => with_aml(s, &mut |x| k(&aml::BufferTerm::new(x))),
        Term::BufferData(d) => k(&aml::BufferData::new(d.clone())),
        Term::ResourceTemplate(rs) => with_res_list(rs, &mut |v| k(&aml::ResourceTemplate::new(v))),
        Term::Device(p, c) => with_list(c, Vec::new(), &mut |v| k(&aml::Device::new(path(p), v))),
        Term::Scope(p, c) => with_list(c, Vec::new(), &mut |v| k(&aml::Scope::new(path(p), v))),
        Term::ScopeRaw(p, c) => {
            let mut body = Vec::new();
            for x in c {
                with_aml(x, &mut |o| o.to_aml_bytes(&mut body));
            }
            k(&Raw(aml::Scope::raw(path(p), body)))
        }
        Term::Method(p, args, ser, c) => with_list(c, Vec::new(), &mut |v| k(&aml::Method::new(path(p), *args, *ser, v))),
        Term::PowerResource(p, l, o, c) => with_list(c, Vec::new(), &mut |v| k(&aml::PowerResource::new(path(p), *l, *o, v))),
        Term::Mutex(p, s) => k(&aml::Mutex::new(path(p), *s)),
        Term::Acquire(p, t) => k(&aml::Acquire::new(path(p), *t)),
        Term::Release(p) => k(&aml::Release::new(path(p))),
        Term::OpRegion(p, sp, o, l) => with2(o, l, &mut |a, b| k(&aml::OpRegion::new(path(p), space(*sp), a, b))),
        Term::Field(p, acc, lock, upd, els) => {
            use aml::FieldAccessType as A;
            let a = [A::Any, A::Byte, A::Word, A::DWord, A::QWord, A::Buffer][*acc as usize];
            let l = if *lock == 0 { aml::FieldLockRule::NoLock } else { aml::FieldLockRule::Lock };
            let u = [aml::FieldUpdateRule::Preserve, aml::FieldUpdateRule::WriteAsOnes, aml::FieldUpdateRule::WriteAsZeroes][*upd as usize];
            k(&aml::Field::new(path(p), a, l, u, field_entries(els)))
        }
        Term::If(p, b) => with_aml(p, &mut |pred| with_list(b, Vec::new(), &mut |v| k(&aml::If::new(pred, v)))),
        Term::Else(b) => with_list(b, Vec::new(), &mut |v| k(&aml::Else::new(v))),
        Term::While(p, b) => with_aml(p, &mut |pred| with_list(b, Vec::new(), &mut |v| k(&aml::While::new(pred, v)))),
        Term::Cmp(kind, l, r) => with2(l, r, &mut |a, b| match kind {
            CmpKind::Equal => k(&aml::Equal::new(a, b)),
            CmpKind::LessThan => k(&aml::LessThan::new(a, b)),
            CmpKind::GreaterThan => k(&aml::GreaterThan::new(a, b)),
            CmpKind::NotEqual => k(&aml::NotEqual::new(a, b)),
            CmpKind::GreaterEqual => k(&aml::GreaterEqual::new(a, b)),
            CmpKind::LessEqual => k(&aml::LessEqual::new(a, b)),
        }),
        Term::Arg(n) => k(&aml::Arg(*n)),
        Term::Local(n) => k(&aml::Local(*n)),
        Term::Store(name, value) => with2(name, value, &mut |n, v| k(&aml::Store::new(n, v))),
        Term::Notify(o, v) => with2(o, v, &mut |a, b| k(&aml::Notify::new(a, b))),
        Term::Un(kind, a) => with_aml(a, &mut |x| match kind {
            UnKind::ObjectType => k(&aml::ObjectType::new(x)),
            UnKind::SizeOf => k(&aml::SizeOf::new(x)),
            UnKind::Return => k(&aml::Return::new(x)),
            UnKind::DeRefOf => k(&aml::DeRefOf::new(x)),
        }),
        Term::Bin(kind, target, a, b) => with3(target, a, b, &mut |t, x, y| match kind {
            BinKind::Add => k(&aml::Add::new(t, x, y)),
            BinKind::Concat => k(&aml::Concat::new(t, x, y)),
            BinKind::Subtract => k(&aml::Subtract::new(t, x, y)),
            BinKind::Multiply => k(&aml::Multiply::new(t, x, y)),
            BinKind::ShiftLeft => k(&aml::ShiftLeft::new(t, x, y)),
            BinKind::ShiftRight => k(&aml::ShiftRight::new(t, x, y)),
            BinKind::And => k(&aml::And::new(t, x, y)),
            BinKind::Nand => k(&aml::Nand::new(t, x, y)),
            BinKind::Or => k(&aml::Or::new(t, x, y)),
            BinKind::Nor => k(&aml::Nor::new(t, x, y)),
            BinKind::Xor => k(&aml::Xor::new(t, x, y)),
            BinKind::ConcatRes => k(&aml::ConcatRes::new(t, x, y)),
            BinKind::Mod => k(&aml::Mod::new(t, x, y)),
            BinKind::Index => k(&aml::Index::new(t, x, y)),
            BinKind::ToString => k(&aml::ToString::new(t, x, y)),
            BinKind::CreateDWordField => k(&aml::CreateDWordField::new(t, x, y)),
            BinKind::CreateQWordField => k(&aml::CreateQWordField::new(t, x, y)),
        }),
        Term::ToBuffer(t, a) => with2(t, a, &mut |t, a| k(&aml::ToBuffer::new(t, a))),
        Term::ToInteger(t, a) => with2(t, a, &mut |t, a| k(&aml::ToInteger::new(t, a))),
        Term::CreateField(n, s, i, c) => with2(n, s, &mut |n, s| with2(i, c, &mut |i, c| k(&aml::CreateField::new(n, s, i, c)))),
        Term::Mid(s, i, l, r) => with2(s, i, &mut |s, i| with2(l, r, &mut |l, r| k(&aml::Mid::new(s, i, l, r)))),
        Term::MethodCall(p, args) => with_list(args, Vec::new(), &mut |v| k(&aml::MethodCall::new(path(p), v))),
        Term::Filler(n) => k(&Raw(filler_bytes(*n))),
    }
}

/// serialise through the crate into a Vec sink
/// A sink that only implements the mandatory method and keeps nothing.
pub struct NullSink;
impl acpi_tables::AmlSink for NullSink {
    fn byte(&mut self, _: u8) {}
}

/// serialise and discard: an object is allowed to be serialised any number of times
pub fn peek(a: &dyn Aml) {
    a.to_aml_bytes(&mut NullSink);
}

/// A sink that implements only the mandatory method and keeps the bytes.
pub struct ByteOnly(pub Vec<u8>);
impl acpi_tables::AmlSink for ByteOnly {
    fn byte(&mut self, b: u8) {
        self.0.push(b);
    }
}

/// The bytes of `o` -- which must not depend on the sink they are written to (C14). Serialised into
/// the vector sink, a byte-only sink (the trait's default word/dword/qword/vec) and, when small,
/// the crate's own two sinks (generic table, package builder). If a sink delivers other bytes,
/// those are returned, so that whatever oracle judges the bytes sees the disagreement too.
pub fn ser_sinks(o: &dyn Aml) -> Vec<u8> {
    ser_sinks_upto(o, 2 << 20)
}

pub fn ser_sinks_upto(o: &dyn Aml, byte_only_limit: usize) -> Vec<u8> {
    let mut a = Vec::new();
    o.to_aml_bytes(&mut a);
    if a.len() <= byte_only_limit {
        let mut b = ByteOnly(Vec::with_capacity(a.len()));
        o.to_aml_bytes(&mut b);
        if b.0 != a {
            return b.0;
        }
    }
    if a.len() <= 600 {
        let mut t = acpi_tables::sdt::Sdt::new(*b"SINK", 36, 1, *b"OEMIDX", *b"TABLEID0", 1);
        o.to_aml_bytes(&mut t);
        if t.as_slice()[36..] != a[..] {
            return t.as_slice()[36..].to_vec();
        }
        let mut pb = aml::PackageBuilder::new();
        o.to_aml_bytes(&mut pb);
        let mut w = Vec::new();
        pb.to_aml_bytes(&mut w);
        // 12 PkgLength NumElements(0) data: the data is the last a.len() bytes
        if w.len() < a.len() || w[w.len() - a.len()..] != a[..] {
            return w;
        }
    }
    a
}

/// Serialises the object three times (discarded, kept, kept): every oracle that judges emitted
/// bytes thereby judges an object that has been serialised before. If the two kept outputs
/// differ (C14's subject) the later one is returned, so a structural oracle sees it too.
pub fn emit(t: &Term) -> Vec<u8> {
    let mut out = Vec::new();
    let mut again = Vec::new();
    with_aml(t, &mut |o| {
        peek(o);
        o.to_aml_bytes(&mut out);
        again = ser_sinks(o);
    });
    if again != out {
        return again;
    }
    out
}
