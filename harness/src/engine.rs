//! Engine: choice-sequence source, violations and signatures, known-finding
//! matching, evidence accumulation, the seeded proptest runner with
//! signature-preserving shrinking, and replay files.
//!
//! Nothing in here knows about ACPI; see DESIGN.md section 2.

use proptest::collection::vec as pvec;
use proptest::prelude::any;
use proptest::test_runner::{Config, RngSeed, TestCaseError, TestError, TestRunner};
use serde_json::{json, Value};
use std::cell::RefCell;
use std::collections::{BTreeMap, HashSet};
use std::fmt::Debug;
use std::hash::{Hash, Hasher};
use std::path::{Path, PathBuf};
use std::sync::Mutex;
use std::time::Instant;

// ---------------------------------------------------------------------------
// choice sequence

/// A finite byte string read as a sequence of bounded choices. An exhausted
/// source yields zeros; choice 0 is always the simplest alternative, and the
/// mapping from bytes to choices is monotone, so proptest's byte shrinking
/// (delete chunks, lower bytes) shrinks the decoded case.
pub struct Choices<'a> {
    data: &'a [u8],
    pos: usize,
    /// one-field-at-a-time mode: every scalar drawn through int()/bytes() is zero except the
    /// `sparse`-th one, which is a distinct-byte pattern (the bytes consumed, hence the shape of
    /// the decoded case, are the same as in normal mode)
    sparse: Option<usize>,
    scalars: usize,
}

impl<'a> Choices<'a> {
    pub fn new(data: &'a [u8]) -> Self {
        Choices { data, pos: 0, sparse: None, scalars: 0 }
    }
    pub fn new_sparse(data: &'a [u8], target: usize) -> Self {
        Choices { data, pos: 0, sparse: Some(target), scalars: 0 }
    }
    /// number of scalar draws so far
    pub fn scalars(&self) -> usize {
        self.scalars
    }
    pub fn exhausted(&self) -> bool {
        self.pos >= self.data.len()
    }
    pub fn consumed(&self) -> usize {
        self.pos.min(self.data.len())
    }
    pub fn byte(&mut self) -> u8 {
        let b = self.data.get(self.pos).copied().unwrap_or(0);
        self.pos = self.pos.saturating_add(1);
        b
    }
    /// uniform-ish choice in 0..n (n >= 1); monotone in the bytes read
    pub fn below(&mut self, n: u32) -> u32 {
        if n <= 1 {
            return 0;
        }
        if n <= 256 {
            ((self.byte() as u32) * n) >> 8
        } else if n <= 65536 {
            let v = ((self.byte() as u64) << 8) | self.byte() as u64;
            ((v * n as u64) >> 16) as u32
        } else {
            let mut v = 0u64;
            for _ in 0..4 {
                v = (v << 8) | self.byte() as u64;
            }
            ((v * n as u64) >> 32) as u32
        }
    }
    pub fn range(&mut self, lo: u32, hi_incl: u32) -> u32 {
        lo + self.below(hi_incl - lo + 1)
    }
    pub fn bool(&mut self) -> bool {
        self.below(2) == 1
    }
    /// true with probability ~ num/256
    pub fn chance(&mut self, num: u32) -> bool {
        (self.byte() as u32) >= 256 - num.min(256)
    }
    pub fn pick<T: Copy>(&mut self, xs: &[T]) -> T {
        xs[self.below(xs.len() as u32) as usize]
    }
    pub fn raw(&mut self, nbytes: usize) -> u64 {
        let mut v = 0u64;
        for _ in 0..nbytes {
            v = (v << 8) | self.byte() as u64;
        }
        v
    }
    pub fn bytes<const N: usize>(&mut self) -> [u8; N] {
        let v = self.bytes_inner::<N>();
        let idx = self.scalars;
        self.scalars += 1;
        match self.sparse {
            None => v,
            Some(t) if t == idx => {
                let mut out = [0u8; N];
                for (i, o) in out.iter_mut().enumerate() {
                    *o = 0xa1 + i as u8;
                }
                out
            }
            Some(_) => [0u8; N],
        }
    }
    fn bytes_inner<const N: usize>(&mut self) -> [u8; N] {
        let mut out = [0u8; N];
        match self.below(4) {
            0 => {}
            1 => {
                // pairwise distinct bytes: exposes ordering/offset slips
                let base = self.byte();
                for (i, o) in out.iter_mut().enumerate() {
                    *o = base.wrapping_add((i as u8).wrapping_mul(17)).wrapping_add(1);
                }
            }
            2 => {
                for o in out.iter_mut() {
                    *o = 0xff;
                }
            }
            _ => {
                for o in out.iter_mut() {
                    *o = self.byte();
                }
            }
        }
        out
    }
    /// biased integer of `bits` width: zero/one/small, width boundaries,
    /// single bits, byte fills, distinct-byte patterns, random
    pub fn int(&mut self, bits: u32) -> u64 {
        let v = self.int_inner(bits);
        let idx = self.scalars;
        self.scalars += 1;
        let mask = if bits >= 64 { u64::MAX } else { (1u64 << bits) - 1 };
        match self.sparse {
            None => v,
            Some(t) if t == idx => 0x0807_0605_0403_0201 & mask,
            Some(_) => 0,
        }
    }
    fn int_inner(&mut self, bits: u32) -> u64 {
        let mask = if bits >= 64 { u64::MAX } else { (1u64 << bits) - 1 };
        let v = match self.below(12) {
            0 => 0,
            1 => 1,
            2 => self.byte() as u64,
            3 => {
                const B: [u64; 18] = [
                    2,
                    0x7f,
                    0x80,
                    0xfe,
                    0xff,
                    0x100,
                    0x101,
                    0xfffe,
                    0xffff,
                    0x1_0000,
                    0x1_0001,
                    0xffff_fffe,
                    0xffff_ffff,
                    0x1_0000_0000,
                    0x1_0000_0001,
                    u64::MAX - 1,
                    u64::MAX,
                    0x8000_0000_0000_0000,
                ];
                self.pick(&B)
            }
            4 => 1u64 << self.below(bits),
            5 => {
                const F: [u64; 6] = [
                    0x0101_0101_0101_0101,
                    0x8080_8080_8080_8080,
                    0xff00_ff00_ff00_ff00,
                    0x00ff_00ff_00ff_00ff,
                    0xaaaa_aaaa_aaaa_aaaa,
                    0x5555_5555_5555_5555,
                ];
                self.pick(&F)
            }
            6 => 0x0807_0605_0403_0201,
            7 => 0x1122_3344_5566_7788,
            8 => mask.wrapping_sub(self.byte() as u64),
            _ => self.raw(((bits + 7) / 8) as usize),
        };
        v & mask
    }
    pub fn u8(&mut self) -> u8 {
        self.int(8) as u8
    }
    pub fn u16(&mut self) -> u16 {
        self.int(16) as u16
    }
    pub fn u32(&mut self) -> u32 {
        self.int(32) as u32
    }
    pub fn u64(&mut self) -> u64 {
        self.int(64)
    }
}

pub fn fingerprint<T: Hash>(t: &T) -> u64 {
    // DefaultHasher::new() uses fixed keys: deterministic across runs
    let mut h = std::collections::hash_map::DefaultHasher::new();
    t.hash(&mut h);
    h.finish()
}

pub fn mix(seed: u64, name: &str, k: u64) -> u64 {
    let mut h = std::collections::hash_map::DefaultHasher::new();
    seed.hash(&mut h);
    name.hash(&mut h);
    k.hash(&mut h);
    h.finish()
}

// ---------------------------------------------------------------------------
// violations, known findings

#[derive(Clone, Debug, PartialEq, Eq, Hash)]
pub struct Violation {
    pub property: String,
    /// what was being checked, e.g. "CEDT/RDPAS"
    pub subject: String,
    /// Appendix D violation kind, e.g. "length-delta"
    pub kind: String,
    /// stable part of the finding (kept while shrinking, matched by known findings)
    pub detail: String,
    /// case-specific free text (offsets, op index); not part of the signature
    pub info: String,
}

impl Violation {
    pub fn new(property: &str, subject: &str, kind: &str, detail: String, info: String) -> Self {
        Violation {
            property: property.to_string(),
            subject: subject.to_string(),
            kind: kind.to_string(),
            detail,
            info,
        }
    }
    pub fn sig(&self) -> String {
        format!("{}|{}|{}|{}", self.property, self.subject, self.kind, self.detail)
    }
    pub fn is_harness_error(&self) -> bool {
        self.kind == "harness-panic"
    }
}

#[derive(Clone, Debug)]
pub struct KnownFinding {
    pub status: String,
    pub property: String,
    pub subject: String,
    pub kind: String,
    pub detail: String,
    pub description: String,
}

#[derive(Clone, Debug, Default)]
pub struct KnownFindings {
    pub entries: Vec<KnownFinding>,
}

impl KnownFindings {
    pub fn load(root: &Path) -> Self {
        let p = root.join("known_findings.json");
        let mut out = KnownFindings::default();
        let Ok(txt) = std::fs::read_to_string(&p) else {
            return out;
        };
        let v: Value = serde_json::from_str(&txt).expect("known_findings.json must parse");
        for e in v["findings"].as_array().cloned().unwrap_or_default() {
            let g = |k: &str| e[k].as_str().unwrap_or("").to_string();
            out.entries.push(KnownFinding {
                status: g("status"),
                property: g("property"),
                subject: g("subject"),
                kind: g("kind"),
                detail: g("detail"),
                description: g("description"),
            });
        }
        out
    }
    /// index of the *open* entry matching this violation exactly
    pub fn matches(&self, v: &Violation) -> Option<usize> {
        self.entries.iter().position(|e| {
            e.status == "open"
                && e.property == v.property
                && e.subject == v.subject
                && e.kind == v.kind
                && e.detail == v.detail
        })
    }
}

// ---------------------------------------------------------------------------
// context / evidence

#[derive(Clone, Copy, Debug, PartialEq, Eq)]
pub enum Tier {
    Quick,
    Thorough,
}

#[derive(Default)]
struct Inner {
    evaluations: u64,
    nontrivial: HashSet<u64>,
    /// cases counted as distinct by construction (exhaustive enumerations)
    nontrivial_counted: u64,
    classes: BTreeMap<String, u64>,
    samples: Vec<Value>,
    subdomains: Vec<Value>,
    engines: BTreeMap<String, u64>,
    known_hits: BTreeMap<usize, u64>,
    excluded: u64,
    findings: Vec<(Violation, PathBuf)>,
    harness_errors: Vec<String>,
    notes: Vec<String>,
}

pub struct Ctx {
    pub prop: String,
    pub tier: Tier,
    pub seed: u64,
    pub root: PathBuf,
    pub known: KnownFindings,
    pub strict: bool,
    pub profile: &'static str,
    pub rule: Mutex<String>,
    pub assumptions: Mutex<Vec<String>>,
    inner: Mutex<Inner>,
    start: Instant,
}

pub fn build_profile() -> &'static str {
    if cfg!(debug_assertions) {
        "chk"
    } else {
        "rel"
    }
}

/// true when integer overflow traps in this build (detected, not assumed)
pub fn overflow_checks_on() -> bool {
    let r = std::panic::catch_unwind(|| {
        let x: u8 = std::hint::black_box(255u8);
        let y: u8 = std::hint::black_box(1u8);
        #[allow(arithmetic_overflow)]
        let z = x + y;
        std::hint::black_box(z)
    });
    r.is_err()
}

pub fn threads() -> usize {
    std::env::var("ACPIV_THREADS")
        .ok()
        .and_then(|s| s.parse().ok())
        .unwrap_or_else(|| std::thread::available_parallelism().map(|n| n.get()).unwrap_or(8))
        .clamp(1, 64)
}

impl Ctx {
    pub fn new(prop: &str, tier: Tier, seed: u64, root: PathBuf) -> Self {
        let known = KnownFindings::load(&root);
        Ctx {
            prop: prop.to_string(),
            tier,
            seed,
            root,
            known,
            strict: false,
            profile: build_profile(),
            rule: Mutex::new(String::new()),
            assumptions: Mutex::new(Vec::new()),
            inner: Mutex::new(Inner::default()),
            start: Instant::now(),
        }
    }
    pub fn quick(&self) -> bool {
        self.tier == Tier::Quick
    }
    /// scale a case count by tier
    pub fn scale(&self, quick: u64, thorough: u64) -> u64 {
        let base = if self.quick() { quick } else { thorough };
        match std::env::var("ACPIV_SCALE").ok().and_then(|s| s.parse::<f64>().ok()) {
            Some(f) => ((base as f64) * f).max(1.0) as u64,
            None => base,
        }
    }
    pub fn set_rule(&self, r: &str) {
        *self.rule.lock().unwrap() = r.to_string();
    }
    pub fn assume(&self, a: &str) {
        self.assumptions.lock().unwrap().push(a.to_string());
    }
    pub fn note(&self, n: String) {
        self.inner.lock().unwrap().notes.push(n);
    }
    pub fn add_evals(&self, n: u64) {
        self.inner.lock().unwrap().evaluations += n;
    }
    pub fn add_nontrivial<I: IntoIterator<Item = u64>>(&self, it: I) {
        let mut g = self.inner.lock().unwrap();
        for x in it {
            g.nontrivial.insert(x);
        }
    }
    /// non-trivial cases that are distinct by construction (each input of an
    /// enumeration is visited once), counted exactly by the caller's predicate
    pub fn add_nontrivial_counted(&self, n: u64) {
        self.inner.lock().unwrap().nontrivial_counted += n;
    }
    pub fn add_class(&self, name: &str, n: u64) {
        *self.inner.lock().unwrap().classes.entry(name.to_string()).or_insert(0) += n;
    }
    pub fn add_engine(&self, name: &str, n: u64) {
        *self.inner.lock().unwrap().engines.entry(name.to_string()).or_insert(0) += n;
    }
    pub fn add_excluded(&self, n: u64) {
        self.inner.lock().unwrap().excluded += n;
    }
    pub fn add_sample(&self, v: Value) {
        let mut g = self.inner.lock().unwrap();
        if g.samples.len() < 12 {
            g.samples.push(v);
        }
    }
    pub fn sample_count(&self) -> usize {
        self.inner.lock().unwrap().samples.len()
    }
    pub fn add_subdomain(&self, name: &str, evaluated: u64, exhaustive: bool) {
        self.inner
            .lock()
            .unwrap()
            .subdomains
            .push(json!({"name": name, "evaluated": evaluated, "exhaustive": exhaustive}));
    }
    pub fn class_count(&self, name: &str) -> u64 {
        self.inner.lock().unwrap().classes.get(name).copied().unwrap_or(0)
    }

    /// Route violations found outside the proptest runner (directed and
    /// enumerated checks). Known findings are counted; anything else becomes a
    /// finding with a replay file. Returns true if any unknown violation.
    pub fn report(&self, check: &str, replay: Value, vs: Vec<Violation>) -> bool {
        let mut any = false;
        for v in vs {
            if v.is_harness_error() {
                self.inner.lock().unwrap().harness_errors.push(format!("{} {}", v.sig(), v.info));
                continue;
            }
            if !self.strict {
                if let Some(i) = self.known.matches(&v) {
                    *self.inner.lock().unwrap().known_hits.entry(i).or_insert(0) += 1;
                    continue;
                }
            }
            any = true;
            let already = {
                let g = self.inner.lock().unwrap();
                g.findings.iter().any(|(f, _)| f.sig() == v.sig())
            };
            if already {
                continue;
            }
            let path = self.write_replay(check, &replay, &v);
            self.inner.lock().unwrap().findings.push((v, path));
        }
        any
    }

    pub fn write_replay(&self, check: &str, replay: &Value, v: &Violation) -> PathBuf {
        let dir = self.root.join("replays").join("found");
        let _ = std::fs::create_dir_all(&dir);
        let name = format!("{}-{:016x}.json", self.prop, fingerprint(&(v.sig(), check)));
        let path = dir.join(name);
        let doc = json!({
            "property": self.prop,
            "check": check,
            "replay": replay,
            "signature": v.sig(),
            "violation": {"subject": v.subject, "kind": v.kind, "detail": v.detail, "info": v.info},
            "profile": self.profile,
        });
        let _ = std::fs::write(&path, serde_json::to_string_pretty(&doc).unwrap());
        path
    }

    pub fn findings_len(&self) -> usize {
        self.inner.lock().unwrap().findings.len()
    }

    /// Merge a sub-run (the same property executed by the other build profile).
    pub fn merge_child(&self, child: &Value) {
        let mut g = self.inner.lock().unwrap();
        g.evaluations += child["evaluations"].as_u64().unwrap_or(0);
        g.nontrivial_counted += child["nontrivial_counted"].as_u64().unwrap_or(0);
        for x in child["nontrivial_fps"].as_array().cloned().unwrap_or_default() {
            if let Some(n) = x.as_u64() {
                g.nontrivial.insert(n ^ 0x9e37_79b9_7f4a_7c15);
            }
        }
        if let Some(m) = child["classes"].as_object() {
            for (k, v) in m {
                *g.classes.entry(format!("chk:{k}")).or_insert(0) += v.as_u64().unwrap_or(0);
            }
        }
        if let Some(m) = child["engines"].as_object() {
            for (k, v) in m {
                *g.engines.entry(format!("chk:{k}")).or_insert(0) += v.as_u64().unwrap_or(0);
            }
        }
        for s in child["subdomains"].as_array().cloned().unwrap_or_default() {
            g.subdomains.push(s);
        }
        for s in child["samples"].as_array().cloned().unwrap_or_default().into_iter().take(3) {
            g.samples.push(s);
        }
        if let Some(m) = child["known_hits"].as_object() {
            for (k, v) in m {
                if let Ok(i) = k.parse::<usize>() {
                    *g.known_hits.entry(i).or_insert(0) += v.as_u64().unwrap_or(0);
                }
            }
        }
        for f in child["findings"].as_array().cloned().unwrap_or_default() {
            let v = Violation::new(
                f["property"].as_str().unwrap_or(""),
                f["subject"].as_str().unwrap_or(""),
                f["kind"].as_str().unwrap_or(""),
                f["detail"].as_str().unwrap_or("").to_string(),
                f["info"].as_str().unwrap_or("").to_string(),
            );
            let p = PathBuf::from(f["replay"].as_str().unwrap_or(""));
            g.findings.push((v, p));
        }
        for e in child["harness_errors"].as_array().cloned().unwrap_or_default() {
            g.harness_errors.push(e.as_str().unwrap_or("").to_string());
        }
    }

    /// machine-readable summary used when this process is the child run
    pub fn child_summary(&self) -> Value {
        let g = self.inner.lock().unwrap();
        json!({
            "evaluations": g.evaluations,
            "nontrivial_counted": g.nontrivial_counted,
            "nontrivial_fps": g.nontrivial.iter().take(200_000).collect::<Vec<_>>(),
            "classes": g.classes,
            "engines": g.engines,
            "subdomains": g.subdomains,
            "samples": g.samples,
            "known_hits": g.known_hits.iter().map(|(k, v)| (k.to_string(), *v)).collect::<BTreeMap<_, _>>(),
            "findings": g.findings.iter().map(|(v, p)| json!({
                "property": v.property, "subject": v.subject, "kind": v.kind,
                "detail": v.detail, "info": v.info, "replay": p.to_string_lossy()})).collect::<Vec<_>>(),
            "harness_errors": g.harness_errors,
        })
    }

    /// Write evidence, print the verdict lines, return the exit code.
    pub fn finish(&self) -> i32 {
        let g = self.inner.lock().unwrap();
        let wall = self.start.elapsed().as_secs_f64();
        let exhaustive = !g.subdomains.is_empty()
            && g.subdomains.iter().all(|s| s["exhaustive"].as_bool() == Some(true))
            && g.engines.keys().all(|k| !k.contains("proptest") && !k.contains("libfuzzer"));
        let known_hit: Vec<Value> = g
            .known_hits
            .iter()
            .map(|(i, n)| {
                let e = &self.known.entries[*i];
                json!({"subject": e.subject, "kind": e.kind, "detail": e.detail, "hits": n})
            })
            .collect();
        let mut samples = g.samples.clone();
        if samples.is_empty() {
            samples.push(json!("(no sample recorded)"));
        }
        let ev = json!({
            "property_id": self.prop,
            "tier": if self.quick() {"quick"} else {"thorough"},
            "seed": self.seed,
            "level": "exploration",
            "coverage": {
                "evaluations": g.evaluations,
                "distinct_nontrivial": g.nontrivial.len() as u64 + g.nontrivial_counted,
                "rule": *self.rule.lock().unwrap(),
                "samples": samples,
                "exhaustive": exhaustive,
                "classes": g.classes,
                "subdomains": g.subdomains,
                "engines": g.engines,
                "known_findings_hit": known_hit,
                "excluded_by_construction": g.excluded,
                "notes": g.notes,
                "build_profile": self.profile,
            },
            "assumptions": *self.assumptions.lock().unwrap(),
            "wall_s": (wall * 1000.0).round() / 1000.0,
            "violations": g.findings.len(),
        });
        let evdir = self.root.join("evidence");
        let _ = std::fs::create_dir_all(&evdir);
        let evpath = evdir.join(format!("{}.json", self.prop));
        if std::env::var("ACPIV_CHILD").is_err() {
            std::fs::write(&evpath, serde_json::to_string_pretty(&ev).unwrap()).expect("write evidence");
        }
        for (i, n) in &g.known_hits {
            let e = &self.known.entries[*i];
            println!(
                "KNOWN-FINDING: property={} {} {} {} ({} hits) -- {}",
                e.property, e.subject, e.kind, e.detail, n, e.description
            );
        }
        for (v, p) in &g.findings {
            println!("VIOLATION property={} replay={}", v.property, p.display());
            println!("  {} | {} | {} | {}", v.subject, v.kind, v.detail, v.info);
        }
        for e in &g.harness_errors {
            println!("HARNESS-ERROR {}", e);
        }
        println!(
            "{} {} [{}]: evaluations={} distinct_nontrivial={} violations={} known_hits={} wall={:.1}s",
            self.prop,
            if self.quick() { "quick" } else { "thorough" },
            self.profile,
            g.evaluations,
            g.nontrivial.len() as u64 + g.nontrivial_counted,
            g.findings.len(),
            g.known_hits.values().sum::<u64>(),
            wall
        );
        if !g.findings.is_empty() {
            1
        } else if !g.harness_errors.is_empty() {
            2
        } else {
            0
        }
    }
}

// ---------------------------------------------------------------------------
// proptest runner

pub struct Pt<'a, C> {
    pub name: &'a str,
    pub cases: u64,
    pub max_len: usize,
    pub decode: &'a (dyn Fn(&mut Choices) -> C + Sync),
    pub oracle: &'a (dyn Fn(&C) -> Vec<Violation> + Sync),
    pub nontrivial: &'a (dyn Fn(&C) -> bool + Sync),
    pub classify: &'a (dyn Fn(&C, &mut Vec<String>) + Sync),
    /// the case as JSON for the replay file (replay bypasses decoder and proptest)
    pub to_json: &'a (dyn Fn(&C) -> Value + Sync),
}

struct Found {
    v: Violation,
    bytes: Vec<u8>,
    case_dbg: String,
    case_json: Value,
}

fn hex(b: &[u8]) -> String {
    b.iter().map(|x| format!("{:02x}", x)).collect()
}
pub fn unhex(s: &str) -> Vec<u8> {
    (0..s.len() / 2).map(|i| u8::from_str_radix(&s[2 * i..2 * i + 2], 16).unwrap_or(0)).collect()
}

pub fn trunc(s: String, n: usize) -> String {
    if s.len() <= n {
        s
    } else {
        let mut cut = n;
        while !s.is_char_boundary(cut) {
            cut -= 1;
        }
        format!("{}…(+{} chars)", &s[..cut], s.len() - cut)
    }
}

/// Run one oracle call guarded against harness panics.
pub fn guarded<C>(prop: &str, oracle: &(dyn Fn(&C) -> Vec<Violation> + Sync), c: &C) -> Vec<Violation> {
    match std::panic::catch_unwind(std::panic::AssertUnwindSafe(|| oracle(c))) {
        Ok(v) => v,
        Err(e) => {
            let msg = e
                .downcast_ref::<String>()
                .cloned()
                .or_else(|| e.downcast_ref::<&str>().map(|s| s.to_string()))
                .unwrap_or_else(|| "panic".into());
            vec![Violation::new(prop, "harness", "harness-panic", trunc(msg, 200), String::new())]
        }
    }
}

pub fn run_pt<C: Debug + Hash + Send>(ctx: &Ctx, spec: Pt<C>) {
    let nthreads = threads().min(spec.cases.max(1) as usize);
    let per = (spec.cases + nthreads as u64 - 1) / nthreads as u64;
    let founds: Mutex<Vec<Found>> = Mutex::new(Vec::new());
    let harness: Mutex<Vec<String>> = Mutex::new(Vec::new());
    let claimed: Mutex<HashSet<String>> = Mutex::new(HashSet::new());
    std::thread::scope(|sc| {
        for t in 0..nthreads {
            let spec = &spec;
            let founds = &founds;
            let harness = &harness;
            let claimed = &claimed;
            std::thread::Builder::new()
                .stack_size(512 << 20)
                .spawn_scoped(sc, move || {
                    pt_thread(ctx, spec, t as u64, per, founds, harness, claimed);
                })
                .unwrap();
        }
    });
    ctx.add_engine(&format!("proptest:{}", spec.name), spec.cases);
    for h in harness.into_inner().unwrap() {
        ctx.inner.lock().unwrap().harness_errors.push(h);
    }
    let mut fs = founds.into_inner().unwrap();
    // keep the smallest reproducer per signature
    fs.sort_by_key(|f| (f.v.sig(), f.bytes.len()));
    fs.dedup_by_key(|f| f.v.sig());
    for f in fs {
        let replay = json!({"bytes": hex(&f.bytes), "case": f.case_json, "debug": trunc(f.case_dbg, 2000)});
        ctx.report(spec.name, replay, vec![f.v]);
    }
}

fn pt_thread<C: Debug + Hash>(
    ctx: &Ctx,
    spec: &Pt<C>,
    t: u64,
    cases: u64,
    founds: &Mutex<Vec<Found>>,
    harness: &Mutex<Vec<String>>,
    claimed: &Mutex<HashSet<String>>,
) {
    let ignored: RefCell<HashSet<String>> = RefCell::new(HashSet::new());
    struct Local {
        evals: u64,
        nontriv: HashSet<u64>,
        classes: BTreeMap<String, u64>,
        known: BTreeMap<usize, u64>,
        samples: Vec<Value>,
        labels: Vec<String>,
    }
    let loc = RefCell::new(Local {
        evals: 0,
        nontriv: HashSet::new(),
        classes: BTreeMap::new(),
        known: BTreeMap::new(),
        samples: Vec::new(),
        labels: Vec::new(),
    });
    let mut round = 0u64;
    let mut budget = cases;
    while round < 3 && budget > 0 {
        let target: RefCell<Option<String>> = RefCell::new(None);
        let first: RefCell<Option<Violation>> = RefCell::new(None);
        let cfg = Config {
            cases: budget.min(u32::MAX as u64) as u32,
            failure_persistence: None,
            rng_seed: RngSeed::Fixed(mix(ctx.seed, spec.name, t * 16 + round)),
            max_shrink_iters: 1_500,
            max_global_rejects: 0,
            ..Config::default()
        };
        let mut runner = TestRunner::new(cfg);
        let strat = pvec(any::<u8>(), 0..spec.max_len);
        let res = runner.run(&strat, |bytes| {
            let mut src = Choices::new(&bytes);
            let case = (spec.decode)(&mut src);
            let shrinking = target.borrow().is_some();
            let vs = guarded(&ctx.prop, spec.oracle, &case);
            if !shrinking {
                let mut l = loc.borrow_mut();
                let l = &mut *l;
                l.evals += 1;
                // (classification helpers may serialise the case themselves: a refusal there is the
                // oracle's to report, not a reason to lose the thread)
                if std::panic::catch_unwind(std::panic::AssertUnwindSafe(|| (spec.nontrivial)(&case))).unwrap_or(false) {
                    let fp = fingerprint(&case);
                    if l.nontriv.insert(fp) && l.samples.len() < 2 && t == 0 {
                        l.samples.push(json!(trunc(format!("{:?}", case), 700)));
                    }
                }
                l.labels.clear();
                let _ = std::panic::catch_unwind(std::panic::AssertUnwindSafe(|| (spec.classify)(&case, &mut l.labels)));
                for lb in &l.labels {
                    *l.classes.entry(lb.clone()).or_insert(0) += 1;
                }
            }
            let mut unknown: Vec<Violation> = Vec::new();
            for v in vs {
                if v.is_harness_error() {
                    if !shrinking {
                        harness.lock().unwrap().push(format!("{} bytes={}", v.detail, hex(&bytes)));
                    }
                    continue;
                }
                if !ctx.strict {
                    if let Some(i) = ctx.known.matches(&v) {
                        if !shrinking {
                            *loc.borrow_mut().known.entry(i).or_insert(0) += 1;
                        }
                        continue;
                    }
                }
                if ignored.borrow().contains(&v.sig()) {
                    continue;
                }
                if !shrinking {
                    // one thread shrinks a given signature; the others move on
                    let mut c = claimed.lock().unwrap();
                    // a dozen distinct signatures is a verdict; do not spend the budget shrinking more
                    if (c.len() >= 12 && !c.contains(&v.sig())) || !c.insert(v.sig()) {
                        ignored.borrow_mut().insert(v.sig());
                        continue;
                    }
                }
                unknown.push(v);
            }
            if unknown.is_empty() {
                return Ok(());
            }
            let tsig = target.borrow().clone();
            match tsig {
                None => {
                    *target.borrow_mut() = Some(unknown[0].sig());
                    *first.borrow_mut() = Some(unknown[0].clone());
                    Err(TestCaseError::fail(unknown[0].sig()))
                }
                Some(ts) => {
                    if let Some(v) = unknown.iter().find(|v| v.sig() == ts) {
                        *first.borrow_mut() = Some(v.clone());
                        Err(TestCaseError::fail(ts))
                    } else {
                        Ok(())
                    }
                }
            }
        });
        match res {
            Ok(()) => break,
            Err(TestError::Fail(_, bytes)) => {
                let mut src = Choices::new(&bytes);
                let case = (spec.decode)(&mut src);
                let used = src.consumed();
                // re-evaluate on the minimal input so `info` belongs to it
                let ts = target.borrow().clone().unwrap_or_default();
                let vs = guarded(&ctx.prop, spec.oracle, &case);
                let v = vs
                    .into_iter()
                    .find(|v| v.sig() == ts)
                    .or_else(|| first.borrow().clone())
                    .expect("failing case must have a violation");
                ignored.borrow_mut().insert(v.sig());
                founds.lock().unwrap().push(Found {
                    v,
                    bytes: bytes[..used.min(bytes.len())].to_vec(),
                    case_dbg: format!("{:?}", case),
                    case_json: (spec.to_json)(&case),
                });
                budget = (budget / 2).max(1);
                if loc.borrow().evals >= cases {
                    budget = 0;
                }
            }
            Err(TestError::Abort(r)) => {
                harness.lock().unwrap().push(format!("proptest abort: {}", r));
                break;
            }
        }
        round += 1;
    }
    let Local { evals, nontriv, classes, known, samples, .. } = loc.into_inner();
    ctx.add_evals(evals);
    ctx.add_nontrivial(nontriv);
    {
        let mut g = ctx.inner.lock().unwrap();
        for (k, v) in classes {
            *g.classes.entry(k).or_insert(0) += v;
        }
        for (k, v) in known {
            *g.known_hits.entry(k).or_insert(0) += v;
        }
        for s in samples {
            if g.samples.len() < 12 {
                g.samples.push(s);
            }
        }
    }
}

/// Replay helper for byte-driven checks: decode + oracle, strict.
pub fn replay_bytes<C: Debug>(
    prop: &str,
    bytes: &[u8],
    decode: &(dyn Fn(&mut Choices) -> C + Sync),
    oracle: &(dyn Fn(&C) -> Vec<Violation> + Sync),
) -> Vec<Violation> {
    let mut src = Choices::new(bytes);
    let case = decode(&mut src);
    println!("case: {}", trunc(format!("{:?}", case), 6000));
    guarded(prop, oracle, &case)
}

/// (location, message) of the most recent panic in this process
pub static LAST_PANIC: Mutex<Option<(String, String)>> = Mutex::new(None);

/// The crate's refusals are panics that the drivers catch; keep the log quiet, but remember where
/// the latest one came from (ACPIV_LOUD=1 keeps the default report as well).
pub fn silence_panics() {
    let default = std::panic::take_hook();
    let loud = std::env::var("ACPIV_LOUD").is_ok();
    std::panic::set_hook(Box::new(move |info| {
        let loc = info.location().map(|l| format!("{}:{}", l.file(), l.line())).unwrap_or_default();
        let msg = info.payload().downcast_ref::<&str>().map(|s| s.to_string()).or_else(|| info.payload().downcast_ref::<String>().cloned()).unwrap_or_default();
        if let Ok(mut g) = LAST_PANIC.lock() {
            *g = Some((loc, msg));
        }
        if loud {
            default(info);
        }
    }));
}
