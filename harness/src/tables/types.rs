//! Table programs: a constructor plus a finite sequence of public builder
//! operations, for every static table the crate can build. Plain data.

use serde::{Deserialize, Serialize};

#[derive(Clone, Copy, Debug, PartialEq, Eq, Hash, PartialOrd, Ord, Serialize, Deserialize)]
pub enum Kind {
    Xsdt,
    Mcfg,
    Madt,
    Srat,
    Slit,
    Hmat,
    Pptt,
    Rhct,
    Rimt,
    Viot,
    Cedt,
    Hest,
    Rqsc,
    Tpm2,
    TcpaClient,
    TcpaServer,
    Fadt,
    Bert,
    Spcr,
    Sdt,
    Rsdp,
    Facs,
}

pub const ALL_KINDS: [Kind; 22] = [
    Kind::Xsdt,
    Kind::Mcfg,
    Kind::Madt,
    Kind::Srat,
    Kind::Slit,
    Kind::Hmat,
    Kind::Pptt,
    Kind::Rhct,
    Kind::Rimt,
    Kind::Viot,
    Kind::Cedt,
    Kind::Hest,
    Kind::Rqsc,
    Kind::Tpm2,
    Kind::TcpaClient,
    Kind::TcpaServer,
    Kind::Fadt,
    Kind::Bert,
    Kind::Spcr,
    Kind::Sdt,
    Kind::Rsdp,
    Kind::Facs,
];

/// tables with a variable body (C03's quantifier)
pub const BODY_KINDS: [Kind; 13] = [
    Kind::Madt,
    Kind::Srat,
    Kind::Hmat,
    Kind::Pptt,
    Kind::Rhct,
    Kind::Rimt,
    Kind::Viot,
    Kind::Cedt,
    Kind::Hest,
    Kind::Rqsc,
    Kind::Mcfg,
    Kind::Xsdt,
    Kind::Slit,
];

pub const HANDLE_KINDS: [Kind; 4] = [Kind::Pptt, Kind::Rhct, Kind::Rimt, Kind::Viot];

impl Kind {
    pub fn name(self) -> &'static str {
        match self {
            Kind::Xsdt => "XSDT",
            Kind::Mcfg => "MCFG",
            Kind::Madt => "MADT",
            Kind::Srat => "SRAT",
            Kind::Slit => "SLIT",
            Kind::Hmat => "HMAT",
            Kind::Pptt => "PPTT",
            Kind::Rhct => "RHCT",
            Kind::Rimt => "RIMT",
            Kind::Viot => "VIOT",
            Kind::Cedt => "CEDT",
            Kind::Hest => "HEST",
            Kind::Rqsc => "RQSC",
            Kind::Tpm2 => "TPM2",
            Kind::TcpaClient => "TCPA-client",
            Kind::TcpaServer => "TCPA-server",
            Kind::Fadt => "FADT",
            Kind::Bert => "BERT",
            Kind::Spcr => "SPCR",
            Kind::Sdt => "SDT",
            Kind::Rsdp => "RSDP",
            Kind::Facs => "FACS",
        }
    }
    pub fn has_header(self) -> bool {
        !matches!(self, Kind::Rsdp | Kind::Facs)
    }
}

#[derive(Clone, Debug, PartialEq, Eq, Hash, Serialize, Deserialize)]
pub struct Hdr {
    pub oem_id: [u8; 6],
    pub oem_table_id: [u8; 8],
    pub oem_rev: u32,
}

#[derive(Clone, Debug, PartialEq, Eq, Hash, Serialize, Deserialize)]
pub enum Ctor {
    Plain,
    /// None = LocalInterruptController::Riscv
    Madt(Option<u32>),
    Slit(u32),
    Rhct(u64),
    Tpm2 { server: bool, base: u64, start: u8 },
    TcpaClient { laml: u32, lasa: u64 },
    Bert { len: u32, base: u64 },
    Sdt { sig: [u8; 4], len: u32, rev: u8 },
    Rsdp { xsdt: u64 },
}

#[derive(Clone, Copy, Debug, PartialEq, Eq, Hash, Serialize, Deserialize)]
pub struct GasV {
    /// true: GAS::new_pci_config(width, access, device, function, register)
    pub pci: bool,
    pub space: u8, // index into SPACES
    pub width: u8,
    pub offset: u8,
    pub access: u8, // 0..=4
    pub addr: u64,
    pub dev: u8,
    pub func: u8,
    pub reg: u16,
}

pub const SPACES: [u8; 13] = [0, 1, 2, 3, 4, 5, 6, 7, 8, 9, 0xa, 0xb, 0x7f];

#[derive(Clone, Copy, Debug, PartialEq, Eq, Hash, Serialize, Deserialize)]
pub struct Bdf {
    pub seg: u16,
    pub bus: u8,
    pub dev: u8,
    pub func: u8,
}

#[derive(Clone, Debug, PartialEq, Eq, Hash, Serialize, Deserialize)]
pub enum GiccSet {
    CpuIf(u32),
    Uid(u32),
    ParkVer(u32),
    PerfIrq(u32, bool), // edge?
    Parked(u64),
    Base(u64),
    Gicv(u64),
    Gich(u64),
    MaintIrq(u32, bool),
    Redist(u64),
    Mpidr(u64),
    Eff(u8),
    Spe(u16),
    Trbe(u16),
}

#[derive(Clone, Debug, PartialEq, Eq, Hash, Serialize, Deserialize)]
pub enum AerSet {
    NumRecords(u32),
    MaxSections(u32),
    DevCtl(u16),
    UncMask(u32),
    UncSev(u32),
    CorMask(u32),
    AerCap(u32),
    RootCmd(u32), // root port only
    SecUncMask(u32),
    SecUncSev(u32),
    SecAerCap(u32), // bridge only
}

#[derive(Clone, Debug, PartialEq, Eq, Hash, Serialize, Deserialize)]
pub struct Notif {
    pub ty: u8, // 0..=15
    pub conf_write_en: Option<u16>,
    pub poll_interval: Option<u32>,
    pub vector: Option<u32>,
    pub pt_value: Option<u32>,
    pub pt_window: Option<u32>,
    pub et_value: Option<u32>,
    pub et_window: Option<u32>,
}

#[derive(Clone, Debug, PartialEq, Eq, Hash, Serialize, Deserialize)]
pub enum GhesSet {
    NumRecords(u32),
    MaxSections(u32),
    MaxRaw(u32),
    StatusAddr(GasV),
    Notification(Notif),
    BlockLen(u32),
    AckReg(GasV),
    AckPreserve(u64),
    AckWrite(u64), // v2 only
}

#[derive(Clone, Debug, PartialEq, Eq, Hash, Serialize, Deserialize)]
pub enum SllbiOp {
    Init(u32, u32),
    Target(u32, u32),
    Entry(u32, u32, u16),
    NonSeq,
    MinXfer,
}

#[derive(Clone, Debug, PartialEq, Eq, Hash, Serialize, Deserialize)]
pub enum CacheSet {
    Size(u32),
    Sets(u32),
    Assoc(u8),
    Alloc(u8), // 0 read 1 write 2 both
    Type(u8),  // 0 data 1 instr 2 unified
    Policy(u8), // 0 wb 1 wt
    Line(u16),
    Id(u32),
    /// index into earlier cache handles (monotone map)
    Next(u32),
}

#[derive(Clone, Debug, PartialEq, Eq, Hash, Serialize, Deserialize)]
pub struct IdMap {
    pub src: u32,
    pub dst: u32,
    pub n: u32,
    pub iommu: u32, // index into earlier IOMMU handles
    pub ats: bool,
    pub pri: bool,
    pub rciep: bool,
}

#[derive(Clone, Debug, PartialEq, Eq, Hash, Serialize, Deserialize)]
pub enum RqscId {
    Cache(u32),
    Mem(u32, u64),
    Acpi(u64, u32),
    Pci(u32),
    Vendor(u8, Vec<u8>),
}

#[derive(Clone, Debug, PartialEq, Eq, Hash, Serialize, Deserialize)]
pub struct RqscRes {
    pub ty: u8, // 0 cache 1 memory
    pub flags: u16,
    pub id: RqscId,
}

#[derive(Clone, Debug, PartialEq, Eq, Hash, Serialize, Deserialize)]
pub enum TcpaSet {
    LogArea(u64, u64),
    ActiveLow,
    Edge,
    SciGpe(u8),
    Gsi(u32),
    Pnp,
    Sbdf(u8, u8, u8, u8),
    Base(GasV),
    Config(GasV),
}

#[derive(Clone, Debug, PartialEq, Eq, Hash, Serialize, Deserialize)]
pub enum FadtSet {
    Dsdt32(u32),
    Dsdt64(u64),
    Fw32(u32),
    Fw64(u64),
    AcpiEnable,
    AcpiDisable,
    Flag(u8), // index into FADT_FLAGS
    GpeInfo(u32, u32, u8, u8, u8),
    Profile(u8),
    /// direct write to a pub field: (field index, value)
    Field(u8, u64),
    FieldGas(u8, GasV),
}

#[derive(Clone, Debug, PartialEq, Eq, Hash, Serialize, Deserialize)]
pub enum SdtOp {
    AppendU8(u8),
    AppendU16(u16),
    AppendU32(u32),
    AppendU64(u64),
    AppendSlice(Vec<u8>),
    WriteU8(u64, u8),
    WriteU16(u64, u16),
    WriteU32(u64, u32),
    WriteU64(u64, u64),
    WriteSlice(u64, Vec<u8>),
    SinkByte(u8),
    SinkWord(u16),
    SinkDword(u32),
    SinkQword(u64),
    SinkVec(Vec<u8>),
    UpdateChecksum,
}

#[derive(Clone, Debug, PartialEq, Eq, Hash, Serialize, Deserialize)]
pub enum Op {
    // XSDT / MCFG
    XsdtEntry(u64),
    Ecam(u64, u16, u8, u8),
    // MADT
    Lapic(u8, u8, u8),
    IoApic(u8, u32, u32),
    Gicc { status: u8, sets: Vec<GiccSet> },
    Gicd(u32, u64, u8),
    GicMsi { frame: Option<u32>, base: Option<u64>, spi: Option<(u16, u16)> },
    Gicr(u64, u32),
    Its(u32, u64),
    Rintc { status: u8, hart: u64, uid: u32, ext: u32, imsic_base: u64, imsic_size: u32 },
    /// via_add_imsic=false: through the generic add_structure
    Imsic { via_add_imsic: bool, s: u16, g: u16, gib: u8, hib: u8, grib: u8, gris: u8 },
    Aplic { id: u8, hw: [u8; 8], idcs: u16, gsi: u32, addr: u64, size: u32, srcs: u16 },
    Plic { id: u8, hw: [u8; 8], srcs: u16, prio: u16, size: u32, addr: u64, gsi: u32 },
    // SRAT
    SratMem { pd: u32, base: u64, len: u64, flags: Vec<u8> },
    SratGi { pd: u32, acpi: Option<([u8; 8], [u8; 4])>, pci: Bdf, flags: Vec<u8> },
    SratRintc { uid: [u8; 4], clock: u32, pd: Option<u32>, enabled: u8 },
    // SLIT
    SlitSet(u32, u32, u8),
    // HMAT
    HmatProx(u32, u32),
    HmatSllbi { loc: u8, dt: u8, mts: u8, unit: u64, ni: u32, nt: u32, ops: Vec<SllbiOp> },
    HmatCache { pd: u32, size: u64, total: u8, level: u8, assoc: u8, policy: u8, line: u16, handles: Vec<u16> },
    // PPTT
    PpttCache { sets: Vec<CacheSet> },
    PpttProc { parent: Option<u32>, id: u32, flags: Vec<u8>, res: Vec<u32>, raw_flags: Option<u32> },
    // RHCT
    RhctIsa(u32), // string length; content from the static pool
    RhctMmu(u8),
    RhctCmo(u8, u8, u8),
    RhctHart { uid: u32, isa: u32, cmos: Vec<u32> },
    // RIMT
    RimtIommu { id: u16, base: Option<u64>, pci: Option<Bdf>, prox: Option<u32>, wires: Option<Vec<(u32, bool, bool, u16)>> },
    RimtRc { id: u16, seg: u16, ats: bool, pri: bool, maps: Option<Vec<IdMap>> },
    RimtPlat { id: u16, name_len: u32, maps: Option<Vec<IdMap>> },
    // VIOT
    ViotPciIommu(Bdf),
    ViotMmioIommu(u64),
    ViotPciRange { first: Bdf, last: Bdf, h: u32 },
    ViotMmioEp { id: u32, base: u64, h: u32 },
    // CEDT
    Chbs(u32, u8, u64),
    Cfmws { base: u64, size: u64, arith: u8, gran: u8, ways: u8, qtg: u16, restr: Vec<u8>, targets: Vec<[u8; 4]> },
    Cxims { gran: u8, maps: Vec<u64> },
    Rdpas { bdf: Bdf, proto: u8, base: u64 },
    // HEST
    AerRoot { dev: Option<(u8, Bdf)>, sets: Vec<AerSet> },
    AerDev { dev: Option<(u8, Bdf)>, sets: Vec<AerSet> },
    AerBridge { dev: Option<(u8, Bdf)>, sets: Vec<AerSet> },
    Ghes { v2: bool, id: u16, enabled: u8, sets: Vec<GhesSet> },
    // RQSC
    RqscCtl { ty: u8, reg: GasV, rcid: u32, mcid: u32, flags: u16, res: Vec<RqscRes> },
    // TPM2
    Tpm2Log(u32, u64),
    // builder-style tables
    Tcpa(TcpaSet),
    Fadt(FadtSet),
    // FACS direct field writes (field index, value)
    FacsField(u8, u64),
    Sdt(SdtOp),
    /// the same op n times, scalar arguments perturbed by the repetition counter
    Repeat(Box<Op>, u32),
}

#[derive(Clone, Debug, PartialEq, Eq, Hash, Serialize, Deserialize)]
pub struct Program {
    pub kind: Kind,
    pub hdr: Hdr,
    pub ctor: Ctor,
    pub ops: Vec<Op>,
}

impl Program {
    /// number of primitive operations (repeats expanded)
    pub fn flat_len(&self) -> u64 {
        self.ops
            .iter()
            .map(|o| match o {
                Op::Repeat(_, n) => *n as u64,
                _ => 1,
            })
            .sum()
    }
}

impl Op {
    /// short label for histograms
    pub fn label(&self) -> &'static str {
        match self {
            Op::XsdtEntry(..) => "entry",
            Op::Ecam(..) => "ecam",
            Op::Lapic(..) => "lapic",
            Op::IoApic(..) => "ioapic",
            Op::Gicc { .. } => "gicc",
            Op::Gicd(..) => "gicd",
            Op::GicMsi { .. } => "gicmsi",
            Op::Gicr(..) => "gicr",
            Op::Its(..) => "its",
            Op::Rintc { .. } => "rintc",
            Op::Imsic { .. } => "imsic",
            Op::Aplic { .. } => "aplic",
            Op::Plic { .. } => "plic",
            Op::SratMem { .. } => "memory",
            Op::SratGi { .. } => "generic-initiator",
            Op::SratRintc { .. } => "rintc-affinity",
            Op::SlitSet(..) => "set-distance",
            Op::HmatProx(..) => "proximity",
            Op::HmatSllbi { .. } => "sllbi",
            Op::HmatCache { .. } => "side-cache",
            Op::PpttCache { .. } => "cache",
            Op::PpttProc { .. } => "processor",
            Op::RhctIsa(..) => "isa",
            Op::RhctMmu(..) => "mmu",
            Op::RhctCmo(..) => "cmo",
            Op::RhctHart { .. } => "hart-info",
            Op::RimtIommu { .. } => "iommu",
            Op::RimtRc { .. } => "root-complex",
            Op::RimtPlat { .. } => "platform",
            Op::ViotPciIommu(..) => "pci-iommu",
            Op::ViotMmioIommu(..) => "mmio-iommu",
            Op::ViotPciRange { .. } => "pci-range",
            Op::ViotMmioEp { .. } => "mmio-endpoint",
            Op::Chbs(..) => "CHBS",
            Op::Cfmws { .. } => "CFMWS",
            Op::Cxims { .. } => "CXIMS",
            Op::Rdpas { .. } => "RDPAS",
            Op::AerRoot { .. } => "aer-root-port",
            Op::AerDev { .. } => "aer-device",
            Op::AerBridge { .. } => "aer-bridge",
            Op::Ghes { v2: false, .. } => "generic",
            Op::Ghes { v2: true, .. } => "generic-v2",
            Op::RqscCtl { .. } => "controller",
            Op::Tpm2Log(..) => "set-log-area",
            Op::Tcpa(..) => "tcpa-builder",
            Op::Fadt(..) => "fadt-builder",
            Op::FacsField(..) => "facs-field",
            Op::Sdt(..) => "sdt-op",
            Op::Repeat(o, _) => o.label(),
        }
    }
}
