pub mod drive;
pub mod expect;
pub mod gen;
pub mod types;
pub mod refenc;
pub mod walk;
