//! Reference layout encoder: caller values -> the bytes the governing
//! specification prescribes. Written in "place value at offset" style from
//! DESIGN.md Appendix A (ACPI 6.5/6.6, CXL 3.0, TCG ACPI, Microsoft SPCR,
//! RISC-V RHCT/RQSC/RIMT), never from the crate's struct declarations.
//!
//! Pinned to the crate's documented choice rather than a specification
//! (DESIGN 3.3): header Revision bytes, creator id "RVAT"/00 00 00 01, VIOT
//! PCI-range endpoint start = first BDF, CHBS length from the CXL version,
//! TCPA server spec revision 01 02, acpi_enable() => 1/0.

use super::drive::{text_of, START_CODES};
use super::gen::{WAYS_CODE, WAYS_COUNT};
use super::types::*;

pub struct B(pub Vec<u8>);

impl B {
    pub fn zeros(n: usize) -> B {
        B(vec![0; n])
    }
    pub fn put(&mut self, off: usize, width: usize, v: u64) {
        for i in 0..width {
            self.0[off + i] = (v >> (8 * i)) as u8;
        }
    }
    pub fn bytes(&mut self, off: usize, b: &[u8]) {
        self.0[off..off + b.len()].copy_from_slice(b);
    }
}

pub fn gas(g: &GasV) -> [u8; 12] {
    // ACPI 6.5 5.2.3.2: 0 space id, 1 bit width, 2 bit offset, 3 access size, 4 address
    let mut b = B::zeros(12);
    if g.pci {
        b.put(0, 1, 2);
        b.put(1, 1, g.width as u64);
        b.put(2, 1, 0);
        b.put(3, 1, g.access as u64);
        // PCI config address: device in bits 47:32, function 31:16, register 15:0
        b.put(4, 8, ((g.dev as u64) << 32) | ((g.func as u64) << 16) | g.reg as u64);
    } else {
        b.put(0, 1, SPACES[g.space as usize] as u64);
        b.put(1, 1, g.width as u64);
        b.put(2, 1, g.offset as u64);
        b.put(3, 1, g.access as u64);
        b.put(4, 8, g.addr);
    }
    let mut o = [0u8; 12];
    o.copy_from_slice(&b.0);
    o
}

fn bdf16(b: &Bdf) -> u64 {
    ((b.bus as u64) << 8) | ((b.dev as u64) << 3) | b.func as u64
}

/// pinned header revisions (crate's documented choice)
pub fn revision(k: Kind) -> u8 {
    match k {
        Kind::TcpaClient | Kind::TcpaServer => 2,
        Kind::Fadt => 6,
        Kind::Spcr => 4,
        _ => 1,
    }
}

pub fn signature(k: Kind) -> [u8; 4] {
    *match k {
        Kind::Xsdt => b"XSDT",
        Kind::Mcfg => b"MCFG",
        Kind::Madt => b"APIC",
        Kind::Srat => b"SRAT",
        Kind::Slit => b"SLIT",
        Kind::Hmat => b"HMAT",
        Kind::Pptt => b"PPTT",
        Kind::Rhct => b"RHCT",
        Kind::Rimt => b"RIMT",
        Kind::Viot => b"VIOT",
        Kind::Cedt => b"CEDT",
        Kind::Hest => b"HEST",
        Kind::Rqsc => b"RQSC",
        Kind::Tpm2 => b"TPM2",
        Kind::TcpaClient | Kind::TcpaServer => b"TCPA",
        Kind::Fadt => b"FACP",
        Kind::Bert => b"BERT",
        Kind::Spcr => b"SPCR",
        Kind::Facs => b"FACS",
        Kind::Sdt | Kind::Rsdp => b"\0\0\0\0",
    }
}

/// offset of the first entry / size of the fixed part after the 36-byte header
pub fn first_entry_offset(k: Kind) -> usize {
    match k {
        Kind::Xsdt | Kind::Pptt | Kind::Cedt => 36,
        Kind::Mcfg | Kind::Madt | Kind::Slit => 44,
        Kind::Srat | Kind::Rimt | Kind::Viot => 48,
        Kind::Hmat | Kind::Hest | Kind::Rqsc => 40,
        Kind::Rhct => 56,
        _ => 36,
    }
}

pub fn header(k: Kind, h: &Hdr, length: u32) -> B {
    // 0 signature, 4 Length, 8 Revision, 9 Checksum, 10 OEMID, 16 OEM table id,
    // 24 OEM revision, 28 creator id, 32 creator revision
    let mut b = B::zeros(36);
    b.bytes(0, &signature(k));
    b.put(4, 4, length as u64);
    b.put(8, 1, revision(k) as u64);
    b.bytes(10, &h.oem_id);
    b.bytes(16, &h.oem_table_id);
    b.put(24, 4, h.oem_rev as u64);
    b.bytes(28, b"RVAT");
    b.bytes(32, &[0, 0, 0, 1]);
    b
}

#[derive(Default, Clone)]
pub struct RefState {
    pub off: usize,
    pub caches: Vec<u32>,
    pub procs: Vec<u32>,
    pub isas: Vec<u32>,
    pub cmos: Vec<u32>,
    pub iommus: Vec<u32>,
    pub viot: Vec<u32>,
}

#[derive(Clone, Debug)]
pub struct RefEntry {
    pub label: &'static str,
    pub offset: usize,
    pub bytes: Vec<u8>,
    /// the length the specification assigns to the record (== bytes.len() except
    /// for the CXL RDPAS record, whose published length is 16 for 17 bytes of fields)
    pub declared: usize,
}

fn aer_common(b: &mut B, ty: u64, dev: &Option<(u8, Bdf)>, sets: &[AerSet]) {
    // ACPI 6.5 18.3.2.3-5: 0 type, 2 source id, 4 rsvd, 6 flags, 7 enabled, 8 records,
    // 12 max sections, 16 bus, 20 device, 22 function, 24 device control, 26 rsvd,
    // 28 uncorrectable mask, 32 uncorrectable severity, 36 correctable mask, 40 AER cap/control
    b.put(0, 2, ty);
    match dev {
        None => b.put(6, 1, 1 << 1), // GLOBAL
        Some((ff, d)) => {
            b.put(6, 1, *ff as u64); // bit0 FIRMWARE_FIRST
            b.put(16, 4, d.bus as u64);
            b.put(20, 2, d.dev as u64);
            b.put(22, 2, d.func as u64);
        }
    }
    for s in sets {
        match s {
            AerSet::NumRecords(v) => b.put(8, 4, *v as u64),
            AerSet::MaxSections(v) => b.put(12, 4, *v as u64),
            AerSet::DevCtl(v) => b.put(24, 2, *v as u64),
            AerSet::UncMask(v) => b.put(28, 4, *v as u64),
            AerSet::UncSev(v) => b.put(32, 4, *v as u64),
            AerSet::CorMask(v) => b.put(36, 4, *v as u64),
            AerSet::AerCap(v) => b.put(40, 4, *v as u64),
            _ => {}
        }
    }
}

pub fn notification(n: &Notif) -> [u8; 28] {
    // ACPI 6.5 18.3.2.9: 0 type, 1 length 28, 2 config write enable, 4 poll interval,
    // 8 vector, 12 polling threshold value, 16 window, 20 error threshold value, 24 window
    let mut b = B::zeros(28);
    b.put(0, 1, n.ty as u64);
    b.put(1, 1, 28);
    b.put(2, 2, n.conf_write_en.unwrap_or(0) as u64);
    b.put(4, 4, n.poll_interval.unwrap_or(0) as u64);
    b.put(8, 4, n.vector.unwrap_or(0) as u64);
    b.put(12, 4, n.pt_value.unwrap_or(0) as u64);
    b.put(16, 4, n.pt_window.unwrap_or(0) as u64);
    b.put(20, 4, n.et_value.unwrap_or(0) as u64);
    b.put(24, 4, n.et_window.unwrap_or(0) as u64);
    let mut o = [0u8; 28];
    o.copy_from_slice(&b.0);
    o
}

fn idmaps(b: &mut Vec<u8>, maps: &Option<Vec<IdMap>>, st: &RefState) {
    // RIMT id mapping (20): source base, destination base, count, IOMMU offset, flags
    if let Some(v) = maps {
        for m in v {
            let mut e = B::zeros(20);
            e.put(0, 4, m.src as u64);
            e.put(4, 4, m.dst as u64);
            e.put(8, 4, m.n as u64);
            e.put(12, 4, st.iommus[m.iommu as usize] as u64);
            e.put(16, 4, (m.ats as u64) | ((m.pri as u64) << 1) | ((m.rciep as u64) << 2));
            b.extend_from_slice(&e.0);
        }
    }
}

/// reference bytes of one body entry (ops that add an entry); updates handle state
pub fn entry(op: &Op, st: &mut RefState) -> Option<RefEntry> {
    let off = st.off;
    let label = op.label();
    let bytes: Vec<u8> = match op {
        Op::XsdtEntry(v) => v.to_le_bytes().to_vec(),
        Op::Ecam(base, seg, sb, eb) => {
            // PCI Firmware spec MCFG allocation (16): 0 base, 8 segment, 10 start bus, 11 end bus, 12 rsvd
            let mut b = B::zeros(16);
            b.put(0, 8, *base);
            b.put(8, 2, *seg as u64);
            b.put(10, 1, *sb as u64);
            b.put(11, 1, *eb as u64);
            b.0
        }
        Op::Lapic(uid, id, st_) => {
            let mut b = B::zeros(8);
            b.put(0, 1, 0);
            b.put(1, 1, 8);
            b.put(2, 1, *uid as u64);
            b.put(3, 1, *id as u64);
            // flags: bit0 enabled, bit1 online capable
            b.put(4, 4, [0u64, 1, 2][*st_ as usize]);
            b.0
        }
        Op::IoApic(id, addr, gsi) => {
            let mut b = B::zeros(12);
            b.put(0, 1, 1);
            b.put(1, 1, 12);
            b.put(2, 1, *id as u64);
            b.put(4, 4, *addr as u64);
            b.put(8, 4, *gsi as u64);
            b.0
        }
        Op::Gicc { status, sets } => {
            let mut b = B::zeros(82);
            b.put(0, 1, 0x0b);
            b.put(1, 1, 82);
            // flags @12: bit0 enabled, bit1 perf irq edge, bit2 VGIC irq edge, bit3 online capable
            let mut flags: u64 = match status {
                1 => 1,
                2 => 1 << 3,
                _ => 0,
            };
            for s in sets {
                match s {
                    GiccSet::CpuIf(v) => b.put(4, 4, *v as u64),
                    GiccSet::Uid(v) => b.put(8, 4, *v as u64),
                    GiccSet::ParkVer(v) => b.put(16, 4, *v as u64),
                    GiccSet::PerfIrq(v, e) => {
                        b.put(20, 4, *v as u64);
                        if *e {
                            flags |= 1 << 1;
                        }
                    }
                    GiccSet::Parked(v) => b.put(24, 8, *v),
                    GiccSet::Base(v) => b.put(32, 8, *v),
                    GiccSet::Gicv(v) => b.put(40, 8, *v),
                    GiccSet::Gich(v) => b.put(48, 8, *v),
                    GiccSet::MaintIrq(v, e) => {
                        b.put(56, 4, *v as u64);
                        if *e {
                            flags |= 1 << 2;
                        }
                    }
                    GiccSet::Redist(v) => b.put(60, 8, *v),
                    GiccSet::Mpidr(v) => b.put(68, 8, *v),
                    GiccSet::Eff(v) => b.put(76, 1, *v as u64),
                    GiccSet::Spe(v) => b.put(78, 2, *v as u64),
                    GiccSet::Trbe(v) => b.put(80, 2, *v as u64),
                }
            }
            b.put(12, 4, flags);
            b.0
        }
        Op::Gicd(id, base, ver) => {
            let mut b = B::zeros(24);
            b.put(0, 1, 0x0c);
            b.put(1, 1, 24);
            b.put(4, 4, *id as u64);
            b.put(8, 8, *base);
            b.put(20, 1, *ver as u64);
            b.0
        }
        Op::GicMsi { frame, base, spi } => {
            let mut b = B::zeros(24);
            b.put(0, 1, 0x0d);
            b.put(1, 1, 24);
            b.put(4, 4, frame.unwrap_or(0) as u64);
            b.put(8, 8, base.unwrap_or(0));
            if let Some((c, s)) = spi {
                // flags bit0 = 1: SPI count/base below override the hardware register
                b.put(16, 4, 1);
                b.put(20, 2, *c as u64);
                b.put(22, 2, *s as u64);
            }
            b.0
        }
        Op::Gicr(base, len) => {
            let mut b = B::zeros(16);
            b.put(0, 1, 0x0e);
            b.put(1, 1, 16);
            b.put(4, 8, *base);
            b.put(12, 4, *len as u64);
            b.0
        }
        Op::Its(id, base) => {
            let mut b = B::zeros(20);
            b.put(0, 1, 0x0f);
            b.put(1, 1, 20);
            b.put(4, 4, *id as u64);
            b.put(8, 8, *base);
            b.0
        }
        Op::Rintc { status, hart, uid, ext, imsic_base, imsic_size } => {
            let mut b = B::zeros(36);
            b.put(0, 1, 0x18);
            b.put(1, 1, 36);
            b.put(2, 1, 1);
            b.put(4, 4, [0u64, 1, 2][*status as usize]);
            b.put(8, 8, *hart);
            b.put(16, 4, *uid as u64);
            b.put(20, 4, *ext as u64);
            b.put(24, 8, *imsic_base);
            b.put(32, 4, *imsic_size as u64);
            b.0
        }
        Op::Imsic { s, g, gib, hib, grib, gris, .. } => {
            let mut b = B::zeros(16);
            b.put(0, 1, 0x19);
            b.put(1, 1, 16);
            b.put(2, 1, 1);
            b.put(8, 2, *s as u64);
            b.put(10, 2, *g as u64);
            b.put(12, 1, *gib as u64);
            b.put(13, 1, *hib as u64);
            b.put(14, 1, *grib as u64);
            b.put(15, 1, *gris as u64);
            b.0
        }
        Op::Aplic { id, hw, idcs, gsi, addr, size, srcs } => {
            let mut b = B::zeros(36);
            b.put(0, 1, 0x1a);
            b.put(1, 1, 36);
            b.put(2, 1, 1);
            b.put(3, 1, *id as u64);
            b.bytes(8, hw);
            b.put(16, 2, *idcs as u64);
            b.put(18, 2, *srcs as u64);
            b.put(20, 4, *gsi as u64);
            b.put(24, 8, *addr);
            b.put(32, 4, *size as u64);
            b.0
        }
        Op::Plic { id, hw, srcs, prio, size, addr, gsi } => {
            let mut b = B::zeros(36);
            b.put(0, 1, 0x1b);
            b.put(1, 1, 36);
            b.put(2, 1, 1);
            b.put(3, 1, *id as u64);
            b.bytes(4, hw);
            b.put(12, 2, *srcs as u64);
            b.put(14, 2, *prio as u64);
            b.put(20, 4, *size as u64);
            b.put(24, 8, *addr);
            b.put(32, 4, *gsi as u64);
            b.0
        }
        Op::SratMem { pd, base, len, flags } => {
            let mut b = B::zeros(40);
            b.put(0, 1, 1);
            b.put(1, 1, 40);
            b.put(2, 4, *pd as u64);
            b.put(8, 4, *base & 0xffff_ffff);
            b.put(12, 4, *base >> 32);
            b.put(16, 4, *len & 0xffff_ffff);
            b.put(20, 4, *len >> 32);
            let mut f = 0u64;
            for x in flags {
                f |= 1 << *x; // 0 enabled, 1 hot pluggable, 2 non-volatile
            }
            b.put(28, 4, f);
            b.0
        }
        Op::SratGi { pd, acpi, pci, flags } => {
            let mut b = B::zeros(32);
            b.put(0, 1, 5);
            b.put(1, 1, 32);
            b.put(4, 4, *pd as u64);
            match acpi {
                Some((hid, uid)) => {
                    b.put(3, 1, 0);
                    b.bytes(8, hid);
                    b.bytes(16, uid);
                }
                None => {
                    b.put(3, 1, 1);
                    b.put(8, 2, pci.seg as u64);
                    b.put(10, 1, pci.bus as u64);
                    b.put(11, 1, ((pci.dev as u64) << 3) | pci.func as u64);
                }
            }
            let mut f = 0u64;
            for x in flags {
                f |= 1 << *x; // 0 enabled, 1 architectural transactions
            }
            b.put(24, 4, f);
            b.0
        }
        Op::SratRintc { uid, clock, pd, enabled } => {
            // ACPI 6.6 RINTC affinity (20): 2 rsvd, 4 proximity domain, 8 UID, 12 flags, 16 clock domain
            let mut b = B::zeros(20);
            b.put(0, 1, 7);
            b.put(1, 1, 20);
            b.put(4, 4, pd.unwrap_or(0) as u64);
            b.bytes(8, uid);
            b.put(12, 4, (*enabled > 0) as u64);
            b.put(16, 4, *clock as u64);
            b.0
        }
        Op::HmatProx(i, m) => {
            let mut b = B::zeros(40);
            b.put(0, 2, 0);
            b.put(4, 4, 40);
            b.put(8, 2, 1); // initiator proximity domain valid
            b.put(12, 4, *i as u64);
            b.put(16, 4, *m as u64);
            b.0
        }
        Op::HmatSllbi { loc, dt, mts, unit, ni, nt, ops } => {
            let (ni, nt) = (*ni as usize, *nt as usize);
            let len = 32 + 4 * ni + 4 * nt + 2 * ni * nt;
            let mut b = B::zeros(len);
            b.put(0, 2, 1);
            b.put(4, 4, len as u64);
            let mut flags = *loc as u64;
            b.put(9, 1, *dt as u64);
            b.put(10, 1, *mts as u64);
            b.put(12, 4, ni as u64);
            b.put(16, 4, nt as u64);
            b.put(24, 8, *unit);
            let e0 = 32 + 4 * ni + 4 * nt;
            for c in 0..ni * nt {
                b.put(e0 + 2 * c, 2, 0xffff);
            }
            for o in ops {
                match o {
                    SllbiOp::Init(i, v) => b.put(32 + 4 * *i as usize, 4, *v as u64),
                    SllbiOp::Target(j, v) => b.put(32 + 4 * ni + 4 * *j as usize, 4, *v as u64),
                    SllbiOp::Entry(i, j, v) => b.put(e0 + 2 * (*i as usize * nt + *j as usize), 2, *v as u64),
                    SllbiOp::NonSeq => flags |= 0x20,
                    SllbiOp::MinXfer => flags |= 0x10,
                }
            }
            b.put(8, 1, flags);
            b.0
        }
        Op::HmatCache { pd, size, total, level, assoc, policy, line, handles } => {
            let len = 32 + 2 * handles.len();
            let mut b = B::zeros(len);
            b.put(0, 2, 2);
            b.put(4, 4, len as u64);
            b.put(8, 4, *pd as u64);
            b.put(16, 8, *size);
            let attr = (*total as u64) | ((*level as u64) << 4) | ((*assoc as u64) << 8) | ((*policy as u64) << 12) | ((*line as u64) << 16);
            b.put(24, 4, attr);
            b.put(30, 2, handles.len() as u64);
            for (i, h) in handles.iter().enumerate() {
                b.put(32 + 2 * i, 2, *h as u64);
            }
            b.0
        }
        Op::PpttCache { sets } => {
            let mut b = B::zeros(28);
            b.put(0, 1, 1);
            b.put(1, 1, 28);
            let mut flags = 0u64;
            let mut attr = 0u64;
            for s in sets {
                match s {
                    CacheSet::Size(v) => {
                        b.put(12, 4, *v as u64);
                        flags |= 1 << 0;
                    }
                    CacheSet::Sets(v) => {
                        b.put(16, 4, *v as u64);
                        flags |= 1 << 1;
                    }
                    CacheSet::Assoc(v) => {
                        b.put(20, 1, *v as u64);
                        flags |= 1 << 2;
                    }
                    CacheSet::Alloc(v) => {
                        // attributes bits 1:0: 0 read, 1 write, 2 read and write
                        attr |= *v as u64;
                        flags |= 1 << 3;
                    }
                    CacheSet::Type(v) => {
                        // bits 3:2: 0 data, 1 instruction, 2 unified
                        attr |= (*v as u64) << 2;
                        flags |= 1 << 4;
                    }
                    CacheSet::Policy(v) => {
                        // bit 4: 0 write back, 1 write through
                        attr |= (*v as u64) << 4;
                        flags |= 1 << 5;
                    }
                    CacheSet::Line(v) => {
                        b.put(22, 2, *v as u64);
                        flags |= 1 << 6;
                    }
                    CacheSet::Id(v) => {
                        b.put(24, 4, *v as u64);
                        flags |= 1 << 7;
                    }
                    CacheSet::Next(i) => b.put(8, 4, st.caches[*i as usize] as u64),
                }
            }
            b.put(4, 4, flags);
            b.put(21, 1, attr);
            st.caches.push(off as u32);
            b.0
        }
        Op::PpttProc { parent, id, flags, res, raw_flags } => {
            let len = 20 + 4 * res.len();
            let mut b = B::zeros(len);
            b.put(0, 1, 0);
            b.put(1, 1, len as u64);
            let mut f = raw_flags.unwrap_or(0) as u64;
            for x in flags {
                f |= 1 << *x; // 0 physical package, 1 id valid, 2 thread, 3 leaf, 4 identical
            }
            b.put(4, 4, f);
            b.put(8, 4, parent.map_or(0, |i| st.procs[i as usize]) as u64);
            b.put(12, 4, *id as u64);
            b.put(16, 4, res.len() as u64);
            for (i, r) in res.iter().enumerate() {
                b.put(20 + 4 * i, 4, st.caches[*r as usize] as u64);
            }
            st.procs.push(off as u32);
            b.0
        }
        Op::RhctIsa(n) => {
            let n = *n as usize;
            let raw = 8 + n + 1;
            let len = raw + (raw % 2);
            let mut b = B::zeros(len);
            b.put(0, 2, 0);
            b.put(2, 2, len as u64);
            b.put(4, 2, 1);
            b.put(6, 2, (n + 1) as u64);
            b.bytes(8, text_of(n).as_bytes());
            st.isas.push(off as u32);
            b.0
        }
        Op::RhctMmu(t) => {
            let mut b = B::zeros(8);
            b.put(0, 2, 2);
            b.put(2, 2, 8);
            b.put(4, 2, 1);
            b.put(7, 1, *t as u64);
            b.0
        }
        Op::RhctCmo(a, c, z) => {
            let mut b = B::zeros(10);
            b.put(0, 2, 1);
            b.put(2, 2, 10);
            b.put(4, 2, 1);
            b.put(7, 1, *a as u64);
            b.put(8, 1, *c as u64);
            b.put(9, 1, *z as u64);
            st.cmos.push(off as u32);
            b.0
        }
        Op::RhctHart { uid, isa, cmos } => {
            let n = 1 + cmos.len();
            let len = 12 + 4 * n;
            let mut b = B::zeros(len);
            b.put(0, 2, 0xffff);
            b.put(2, 2, len as u64);
            b.put(4, 2, 1);
            b.put(6, 2, n as u64);
            b.put(8, 4, *uid as u64);
            b.put(12, 4, st.isas[*isa as usize] as u64);
            for (i, c) in cmos.iter().enumerate() {
                b.put(16 + 4 * i, 4, st.cmos[*c as usize] as u64);
            }
            b.0
        }
        Op::RimtIommu { id, base, pci, prox, wires } => {
            let nw = wires.as_ref().map_or(0, |w| w.len());
            let len = 32 + 8 * nw;
            let mut b = B::zeros(len);
            b.put(0, 1, 0);
            b.put(1, 1, 1);
            b.put(2, 2, len as u64);
            b.put(4, 2, *id as u64);
            b.put(8, 8, base.unwrap_or(0));
            b.put(16, 4, (pci.is_some() as u64) | ((prox.is_some() as u64) << 1));
            if let Some(d) = pci {
                b.put(20, 2, d.seg as u64);
                b.put(22, 2, bdf16(d));
            }
            b.put(24, 4, prox.unwrap_or(0) as u64);
            b.put(28, 2, nw as u64);
            b.put(30, 2, 32);
            if let Some(w) = wires {
                for (i, (num, level, high, aplic)) in w.iter().enumerate() {
                    b.put(32 + 8 * i, 4, *num as u64);
                    b.put(36 + 8 * i, 2, (*level as u64) | ((*high as u64) << 1));
                    b.put(38 + 8 * i, 2, *aplic as u64);
                }
            }
            st.iommus.push(off as u32);
            b.0
        }
        Op::RimtRc { id, seg, ats, pri, maps } => {
            let nm = maps.as_ref().map_or(0, |m| m.len());
            let mut b = B::zeros(16);
            b.put(0, 1, 1);
            b.put(1, 1, 1);
            b.put(2, 2, (16 + 20 * nm) as u64);
            b.put(4, 2, *id as u64);
            b.put(6, 2, *seg as u64);
            b.put(8, 4, (*ats as u64) | ((*pri as u64) << 1));
            b.put(12, 2, 16);
            b.put(14, 2, nm as u64);
            let mut v = b.0;
            idmaps(&mut v, maps, st);
            v
        }
        Op::RimtPlat { id, name_len, maps } => {
            let nm = maps.as_ref().map_or(0, |m| m.len());
            let nl = *name_len as usize;
            let mo = 12 + nl + 1;
            let mut b = B::zeros(mo);
            b.put(0, 1, 2);
            b.put(1, 1, 1);
            b.put(2, 2, (mo + 20 * nm) as u64);
            b.put(4, 2, *id as u64);
            b.put(8, 2, mo as u64);
            b.put(10, 2, nm as u64);
            b.bytes(12, text_of(nl).as_bytes());
            let mut v = b.0;
            idmaps(&mut v, maps, st);
            v
        }
        Op::ViotPciIommu(d) => {
            let mut b = B::zeros(16);
            b.put(0, 1, 3);
            b.put(2, 2, 16);
            b.put(4, 2, d.seg as u64);
            b.put(6, 2, bdf16(d));
            st.viot.push(off as u32);
            b.0
        }
        Op::ViotMmioIommu(base) => {
            let mut b = B::zeros(16);
            b.put(0, 1, 4);
            b.put(2, 2, 16);
            b.put(8, 8, *base);
            st.viot.push(off as u32);
            b.0
        }
        Op::ViotPciRange { first, last, h } => {
            let mut b = B::zeros(24);
            b.put(0, 1, 1);
            b.put(2, 2, 24);
            b.put(4, 4, bdf16(first)); // endpoint start: crate's choice (first BDF)
            b.put(8, 2, first.seg as u64);
            b.put(10, 2, last.seg as u64);
            b.put(12, 2, bdf16(first));
            b.put(14, 2, bdf16(last));
            b.put(16, 2, st.viot[*h as usize] as u64);
            b.0
        }
        Op::ViotMmioEp { id, base, h } => {
            let mut b = B::zeros(24);
            b.put(0, 1, 2);
            b.put(2, 2, 24);
            b.put(4, 4, *id as u64);
            b.put(8, 8, *base);
            b.put(16, 2, st.viot[*h as usize] as u64);
            b.0
        }
        Op::Chbs(uid, ver, base) => {
            // CXL 3.0 9.17.1.2 (32): 4 UID, 8 CXL version, 12 rsvd, 16 base, 24 length
            let mut b = B::zeros(32);
            b.put(0, 1, 0);
            b.put(2, 2, 32);
            b.put(4, 4, *uid as u64);
            b.put(8, 4, *ver as u64);
            b.put(16, 8, *base);
            b.put(24, 8, if *ver == 0 { 0x2000 } else { 0x1_0000 });
            b.0
        }
        Op::Cfmws { base, size, arith, gran, ways, qtg, restr, targets } => {
            // CXL 3.0 9.17.1.3 (36 + 4 NIW)
            let niw = WAYS_COUNT[*ways as usize] as usize;
            let len = 36 + 4 * niw;
            let mut b = B::zeros(len);
            b.put(0, 1, 1);
            b.put(2, 2, len as u64);
            b.put(8, 8, *base);
            b.put(16, 8, *size);
            b.put(24, 1, WAYS_CODE[*ways as usize] as u64);
            b.put(25, 1, *arith as u64);
            b.put(28, 4, *gran as u64);
            let mut r = 0u64;
            for x in restr {
                r |= 1 << *x; // 0 type 2, 1 type 3, 2 volatile, 3 persistent, 4 fixed config
            }
            b.put(32, 2, r);
            b.put(34, 2, *qtg as u64);
            for (i, t) in targets.iter().take(niw).enumerate() {
                b.bytes(36 + 4 * i, t);
            }
            b.0
        }
        Op::Cxims { gran, maps } => {
            let len = 8 + 8 * maps.len();
            let mut b = B::zeros(len);
            b.put(0, 1, 2);
            b.put(2, 2, len as u64);
            b.put(6, 1, *gran as u64);
            b.put(7, 1, maps.len() as u64);
            for (i, m) in maps.iter().enumerate() {
                b.put(8 + 8 * i, 8, *m);
            }
            b.0
        }
        Op::Rdpas { bdf, proto, base } => {
            // CXL 3.0 9.17.1.5: the published record length (10h) and field list (17 bytes)
            // disagree; the reference follows the field list and the published length value
            // (see DESIGN 5 and the open known finding)
            let mut b = B::zeros(17);
            b.put(0, 1, 3);
            b.put(2, 2, 16);
            b.put(4, 2, bdf.seg as u64);
            b.put(6, 2, bdf16(bdf));
            b.put(8, 1, *proto as u64);
            b.put(9, 8, *base);
            b.0
        }
        Op::AerRoot { dev, sets } => {
            let mut b = B::zeros(48);
            aer_common(&mut b, 6, dev, sets);
            for s in sets {
                if let AerSet::RootCmd(v) = s {
                    b.put(44, 4, *v as u64);
                }
            }
            b.0
        }
        Op::AerDev { dev, sets } => {
            let mut b = B::zeros(44);
            aer_common(&mut b, 7, dev, sets);
            b.0
        }
        Op::AerBridge { dev, sets } => {
            let mut b = B::zeros(56);
            aer_common(&mut b, 8, dev, sets);
            for s in sets {
                match s {
                    AerSet::SecUncMask(v) => b.put(44, 4, *v as u64),
                    AerSet::SecUncSev(v) => b.put(48, 4, *v as u64),
                    AerSet::SecAerCap(v) => b.put(52, 4, *v as u64),
                    _ => {}
                }
            }
            b.0
        }
        Op::Ghes { v2, id, enabled, sets } => {
            // ACPI 6.5 18.3.2.7/8: 0 type, 2 source id, 4 related source id, 6 flags, 7 enabled,
            // 8 records, 12 max sections, 16 max raw length, 20 status GAS, 32 notification(28),
            // 60 status block length, [64 read-ack GAS, 76 preserve, 84 write]
            let mut b = B::zeros(if *v2 { 92 } else { 64 });
            b.put(0, 2, if *v2 { 10 } else { 9 });
            b.put(2, 2, *id as u64);
            b.put(4, 2, 0xffff);
            b.put(7, 1, *enabled as u64);
            for s in sets {
                match s {
                    GhesSet::NumRecords(v) => b.put(8, 4, *v as u64),
                    GhesSet::MaxSections(v) => b.put(12, 4, *v as u64),
                    GhesSet::MaxRaw(v) => b.put(16, 4, *v as u64),
                    GhesSet::StatusAddr(g) => b.bytes(20, &gas(g)),
                    GhesSet::Notification(n) => b.bytes(32, &notification(n)),
                    GhesSet::BlockLen(v) => b.put(60, 4, *v as u64),
                    GhesSet::AckReg(g) if *v2 => b.bytes(64, &gas(g)),
                    GhesSet::AckPreserve(v) if *v2 => b.put(76, 8, *v),
                    GhesSet::AckWrite(v) if *v2 => b.put(84, 8, *v),
                    _ => {}
                }
            }
            b.0
        }
        Op::RqscCtl { ty, reg, rcid, mcid, flags, res } => {
            let mut body: Vec<u8> = Vec::new();
            for r in res {
                // after the 8-byte fixed part: Resource ID 1 (8), Resource ID 2 (4), resource data
                let (idt, tail): (u8, Vec<u8>) = match &r.id {
                    RqscId::Cache(c) => (0, [&(*c as u64).to_le_bytes()[..], &[0u8; 4][..]].concat()),
                    RqscId::Mem(p, bw) => (1, [&(*p as u64).to_le_bytes()[..], &[0u8; 4][..], &bw.to_le_bytes()[..]].concat()),
                    RqscId::Acpi(h, u) => (2, [&h.to_le_bytes()[..], &u.to_le_bytes()[..]].concat()),
                    RqscId::Pci(b) => (3, [&(*b as u64).to_le_bytes()[..], &[0u8; 4][..]].concat()),
                    // vendor specific: the caller supplies id1, id2 and data as one byte string
                    RqscId::Vendor(t, d) => (*t, d.clone()),
                };
                let len = 8 + tail.len();
                let mut e = B::zeros(len);
                e.put(0, 1, r.ty as u64);
                e.put(2, 2, len as u64);
                e.put(4, 2, r.flags as u64);
                e.put(7, 1, idt as u64);
                e.bytes(8, &tail);
                body.extend_from_slice(&e.0);
            }
            let mut b = B::zeros(28);
            b.put(0, 1, *ty as u64);
            b.put(2, 2, (28 + body.len()) as u64);
            b.bytes(4, &gas(reg));
            b.put(16, 4, *rcid as u64);
            b.put(20, 4, *mcid as u64);
            b.put(24, 2, *flags as u64);
            b.put(26, 2, res.len() as u64);
            let mut v = b.0;
            v.extend_from_slice(&body);
            v
        }
        _ => return None,
    };
    st.off += bytes.len();
    let declared = if matches!(op, Op::Rdpas { .. }) { 16 } else { bytes.len() };
    Some(RefEntry { label, offset: off, bytes, declared })
}

/// FADT field table: (offset, width) of the pub scalar fields, ACPI 6.5 Table 5.9
pub const FADT_FIELDS: [(usize, usize); 42] = [
    (36, 4),
    (40, 4),
    (45, 1),
    (46, 2),
    (48, 4),
    (52, 1),
    (53, 1),
    (54, 1),
    (55, 1),
    (56, 4),
    (60, 4),
    (64, 4),
    (68, 4),
    (72, 4),
    (76, 4),
    (80, 4),
    (84, 4),
    (88, 1),
    (89, 1),
    (90, 1),
    (91, 1),
    (92, 1),
    (93, 1),
    (94, 1),
    (95, 1),
    (96, 2),
    (98, 2),
    (100, 2),
    (102, 2),
    (104, 1),
    (105, 1),
    (106, 1),
    (107, 1),
    (108, 1),
    (109, 2),
    (112, 4),
    (128, 1),
    (129, 2),
    (131, 1),
    (132, 8),
    (140, 8),
    (268, 8),
];
pub const FADT_GAS_FIELDS: [usize; 11] = [116, 148, 160, 172, 184, 196, 208, 220, 232, 244, 256];
/// FADT flag values in the order of the crate's enum = ACPI 6.5 Table 5.10
pub fn fadt_flag_value(i: u8) -> u32 {
    if i < 22 {
        1 << i
    } else {
        ((i - 22) as u32) << 22
    }
}
pub const FACS_FIELDS: [(usize, usize); 7] = [(8, 4), (12, 4), (16, 4), (20, 4), (24, 8), (32, 1), (36, 4)];

fn set_checksum(img: &mut [u8], at: usize) {
    img[at] = 0;
    let s = img.iter().fold(0u8, |a, x| a.wrapping_add(*x));
    img[at] = 0u8.wrapping_sub(s);
}

/// Reference image after applying `ops` (accepted ops only) to the constructor.
/// Returns the image and the entries with their offsets.
pub fn image(p: &Program, ops: &[Op]) -> (Vec<u8>, Vec<RefEntry>, RefState) {
    let k = p.kind;
    let mut st = RefState { off: first_entry_offset(k), ..Default::default() };
    let mut entries: Vec<RefEntry> = Vec::new();
    match k {
        Kind::Rsdp => {
            let Ctor::Rsdp { xsdt } = &p.ctor else { unreachable!() };
            let mut b = B::zeros(36);
            b.bytes(0, b"RSD PTR ");
            b.bytes(9, &p.hdr.oem_id);
            b.put(15, 1, 2);
            b.put(20, 4, 36);
            b.put(24, 8, *xsdt);
            let mut img = b.0;
            let s20 = img[..20].iter().fold(0u8, |a, x| a.wrapping_add(*x));
            img[8] = 0u8.wrapping_sub(s20);
            set_checksum(&mut img, 32);
            return (img, entries, st);
        }
        Kind::Facs => {
            let mut b = B::zeros(64);
            b.bytes(0, b"FACS");
            b.put(4, 4, 64);
            b.put(32, 1, 1);
            for o in ops {
                if let Op::FacsField(i, v) = o {
                    let (off, w) = FACS_FIELDS[*i as usize];
                    b.put(off, w, *v);
                }
            }
            return (b.0, entries, st);
        }
        _ => {}
    }
    // fixed part after the header
    let mut fixed = B::zeros(first_entry_offset(k) - 36);
    let mut body: Vec<u8> = Vec::new();
    match (k, &p.ctor) {
        (Kind::Madt, Ctor::Madt(a)) => fixed.put(0, 4, a.unwrap_or(0) as u64),
        (Kind::Srat, _) => fixed.put(0, 4, 1), // reserved, must be 1
        (Kind::Rhct, Ctor::Rhct(tb)) => {
            fixed.put(4, 8, *tb);
            fixed.put(16, 4, 56);
        }
        (Kind::Rimt, _) => fixed.put(4, 4, 48),
        (Kind::Viot, _) => fixed.put(2, 2, 48),
        (Kind::Slit, Ctor::Slit(n)) => {
            fixed.put(0, 8, *n as u64);
            let n = *n as usize;
            body = vec![10u8; n * n];
            for o in ops {
                if let Op::SlitSet(a, b, v) = o {
                    body[*a as usize * n + *b as usize] = *v;
                    body[*b as usize * n + *a as usize] = *v;
                }
            }
        }
        (Kind::Tpm2, Ctor::Tpm2 { server, base, start }) => {
            let mut b = B::zeros(16);
            b.put(0, 2, *server as u64);
            b.put(4, 8, *base);
            b.put(12, 4, START_CODES[*start as usize] as u64);
            body = b.0;
            if let Some(Op::Tpm2Log(laml, lasa)) = ops.iter().find(|o| matches!(o, Op::Tpm2Log(..))) {
                let mut e = B::zeros(24);
                e.put(12, 4, *laml as u64);
                e.put(16, 8, *lasa);
                body.extend_from_slice(&e.0);
            }
        }
        (Kind::TcpaClient, Ctor::TcpaClient { laml, lasa }) => {
            let mut b = B::zeros(14);
            b.put(0, 2, 0);
            b.put(2, 4, *laml as u64);
            b.put(6, 8, *lasa);
            body = b.0;
        }
        (Kind::TcpaServer, _) => {
            // offsets below are relative to the table start minus 36
            let mut b = B::zeros(64);
            b.put(0, 2, 1);
            b.bytes(20, &[1, 2]);
            let (mut dev, mut int) = (0u64, 0u64);
            for o in ops {
                if let Op::Tcpa(s) = o {
                    match s {
                        TcpaSet::LogArea(a, c) => {
                            b.put(4, 8, *a);
                            b.put(12, 8, *c);
                        }
                        TcpaSet::ActiveLow => int |= 1 << 1,
                        TcpaSet::Edge => int |= 1 << 0,
                        TcpaSet::SciGpe(v) => {
                            b.put(24, 1, *v as u64);
                            int |= 1 << 2;
                        }
                        TcpaSet::Gsi(v) => {
                            b.put(28, 4, *v as u64);
                            int |= 1 << 3;
                        }
                        TcpaSet::Pnp => dev |= 1 << 1,
                        TcpaSet::Sbdf(sg, bus, d, f) => {
                            b.put(60, 1, *sg as u64);
                            b.put(61, 1, *bus as u64);
                            b.put(62, 1, *d as u64);
                            b.put(63, 1, *f as u64);
                            dev |= 1 << 0;
                        }
                        TcpaSet::Base(g) => b.bytes(32, &gas(g)),
                        TcpaSet::Config(g) => {
                            b.bytes(48, &gas(g));
                            dev |= 1 << 2;
                        }
                    }
                }
            }
            b.put(22, 1, dev);
            b.put(23, 1, int);
            body = b.0;
        }
        (Kind::Bert, Ctor::Bert { len, base }) => {
            let mut b = B::zeros(12);
            b.put(0, 4, *len as u64);
            b.put(4, 8, *base);
            body = b.0;
        }
        (Kind::Spcr, _) => {
            // Microsoft SPCR rev 4; offsets relative to 36
            let mut b = B::zeros(54);
            b.put(0, 1, 0x15); // RISC-V SBI console
            b.put(28, 2, 0xffff);
            b.put(30, 2, 0xffff);
            b.put(48, 2, 2);
            b.put(50, 2, 88);
            b.bytes(52, b".\0");
            body = b.0;
        }
        (Kind::Fadt, _) => {
            let mut b = B::zeros(276);
            b.put(131, 1, 5);
            for o in ops {
                if let Op::Fadt(s) = o {
                    match s {
                        FadtSet::Dsdt32(v) => {
                            b.put(40, 4, *v as u64);
                            b.put(140, 8, 0);
                        }
                        FadtSet::Dsdt64(v) => {
                            b.put(40, 4, 0);
                            b.put(140, 8, *v);
                        }
                        FadtSet::Fw32(v) => {
                            b.put(36, 4, *v as u64);
                            b.put(132, 8, 0);
                        }
                        FadtSet::Fw64(v) => {
                            b.put(36, 4, 0);
                            b.put(132, 8, *v);
                        }
                        FadtSet::AcpiEnable => {
                            b.put(52, 1, 1);
                            b.put(53, 1, 0);
                        }
                        FadtSet::AcpiDisable => {
                            b.put(52, 1, 0);
                            b.put(53, 1, 1);
                        }
                        FadtSet::Flag(i) => {
                            let cur = u32::from_le_bytes([b.0[112], b.0[113], b.0[114], b.0[115]]);
                            b.put(112, 4, (cur | fadt_flag_value(*i)) as u64);
                        }
                        FadtSet::GpeInfo(g0, g1, l0, l1, base) => {
                            b.put(80, 4, *g0 as u64);
                            b.put(84, 4, *g1 as u64);
                            b.put(92, 1, *l0 as u64);
                            b.put(93, 1, *l1 as u64);
                            b.put(94, 1, *base as u64);
                        }
                        FadtSet::Profile(pf) => b.put(45, 1, *pf as u64),
                        // index 42 = the checksum field: recomputed by finalize(), no trace in the image
                        FadtSet::Field(i, _) if *i as usize >= FADT_FIELDS.len() => {}
                        FadtSet::Field(i, v) => {
                            let (off, w) = FADT_FIELDS[*i as usize];
                            b.put(off, w, *v);
                        }
                        FadtSet::FieldGas(i, g) => b.bytes(FADT_GAS_FIELDS[*i as usize], &gas(g)),
                    }
                }
            }
            body = b.0[36..].to_vec();
        }
        _ => {}
    }
    for o in ops {
        if let Some(e) = entry(o, &mut st) {
            body.extend_from_slice(&e.bytes);
            entries.push(e);
        }
    }
    // summarising fields of the fixed part
    let n = entries.len() as u64;
    match k {
        Kind::Rhct => fixed.put(12, 4, n),
        Kind::Rimt => fixed.put(0, 4, n),
        Kind::Viot => fixed.put(0, 2, n),
        Kind::Hest | Kind::Rqsc => fixed.put(0, 4, n),
        _ => {}
    }
    // Length: the sum of what the specification declares for each part
    let slack: usize = entries.iter().map(|e| e.bytes.len() - e.declared).sum();
    let total = 36 + fixed.0.len() + body.len() - slack;
    let mut img = header(k, &p.hdr, total as u32).0;
    img.extend_from_slice(&fixed.0);
    img.extend_from_slice(&body);
    set_checksum(&mut img, 9);
    (img, entries, st)
}
