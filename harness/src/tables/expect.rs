//! What the documented contract says about each op of a history, without
//! running the crate: which ops must be refused (panic, table unchanged).

use super::gen::WAYS_COUNT;
use super::types::*;

pub fn sdt_op_growth(o: &SdtOp) -> u64 {
    match o {
        SdtOp::AppendU8(_) | SdtOp::SinkByte(_) => 1,
        SdtOp::AppendU16(_) | SdtOp::SinkWord(_) => 2,
        SdtOp::AppendU32(_) | SdtOp::SinkDword(_) => 4,
        SdtOp::AppendU64(_) | SdtOp::SinkQword(_) => 8,
        SdtOp::AppendSlice(v) | SdtOp::SinkVec(v) => v.len() as u64,
        _ => 0,
    }
}

/// (offset, width) of an Sdt write op
pub fn sdt_write_span(o: &SdtOp) -> Option<(u64, u64)> {
    match o {
        SdtOp::WriteU8(o, _) => Some((*o, 1)),
        SdtOp::WriteU16(o, _) => Some((*o, 2)),
        SdtOp::WriteU32(o, _) => Some((*o, 4)),
        SdtOp::WriteU64(o, _) => Some((*o, 8)),
        SdtOp::WriteSlice(o, v) => Some((*o, v.len() as u64)),
        _ => None,
    }
}

/// mask[i] == true: op i is outside the accepted domain and must be refused
pub fn refusal_mask(p: &Program, flat: &[Op]) -> Vec<bool> {
    let mut imsic = false;
    let mut tpm_log = false;
    let mut sdt_len = match p.ctor {
        Ctor::Sdt { len, .. } => len as u64,
        _ => 0,
    };
    flat.iter()
        .map(|op| match op {
            Op::Imsic { via_add_imsic: true, .. } => {
                let r = imsic;
                imsic = true;
                r
            }
            Op::Tpm2Log(..) => {
                let r = tpm_log;
                tpm_log = true;
                r
            }
            Op::Cfmws { ways, targets, .. } => targets.len() as u32 != WAYS_COUNT[*ways as usize],
            Op::Sdt(o) => {
                let r = match sdt_write_span(o) {
                    Some((off, w)) => off.checked_add(w).map_or(true, |e| e > sdt_len),
                    None => false,
                };
                sdt_len += sdt_op_growth(o);
                r
            }
            _ => false,
        })
        .collect()
}

/// Sdt::new refuses declared lengths below the header size
pub fn ctor_refused(p: &Program) -> bool {
    matches!(p.ctor, Ctor::Sdt { len, .. } if len < 36)
}
