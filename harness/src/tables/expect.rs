//! What the documented contract says about each op of a history, without
//! running the crate: which ops must be refused (panic, table unchanged).

use super::gen::WAYS_COUNT;
use super::types::*;

pub fn sdt_op_growth(o: &SdtOp) -> u64 {
    match o {
        SdtOp::AppendU8(_) | SdtOp::SinkByte(_) => 1,
        SdtOp::AppendU16(_) | SdtOp::SinkWord(_) => 2,
        SdtOp::AppendU32(_) | SdtOp::SinkDword(_) => 4,
        SdtOp::AppendU64(_) | SdtOp::SinkQword(_) => 8,
        SdtOp::AppendSlice(v) | SdtOp::SinkVec(v) => v.len() as u64,
        _ => 0,
    }
}

/// (offset, width) of an Sdt write op
pub fn sdt_write_span(o: &SdtOp) -> Option<(u64, u64)> {
    match o {
        SdtOp::WriteU8(o, _) => Some((*o, 1)),
        SdtOp::WriteU16(o, _) => Some((*o, 2)),
        SdtOp::WriteU32(o, _) => Some((*o, 4)),
        SdtOp::WriteU64(o, _) => Some((*o, 8)),
        SdtOp::WriteSlice(o, v) => Some((*o, v.len() as u64)),
        _ => None,
    }
}

/// mask[i] == true: op i is outside the accepted domain and must be refused
pub fn refusal_mask(p: &Program, flat: &[Op]) -> Vec<bool> {
    let mut sdt_len = match p.ctor {
        Ctor::Sdt { len, .. } => len as u64,
        _ => 0,
    };
    flat.iter()
        .map(|op| match op {
            Op::Cfmws { ways, targets, .. } => targets.len() as u32 != WAYS_COUNT[*ways as usize],
            Op::Sdt(o) => {
                let r = match sdt_write_span(o) {
                    Some((off, w)) => off.checked_add(w).map_or(true, |e| e > sdt_len),
                    None => false,
                };
                sdt_len += sdt_op_growth(o);
                r
            }
            _ => false,
        })
        .collect()
}

/// mask[i] == true: the contract says nothing about op i (an index outside the matrix): the crate
/// may refuse it or not. Refused => it must leave no trace; accepted => the outcome is undefined
/// and the reference stops judging the history from there.
pub fn open_mask(p: &Program, flat: &[Op]) -> Vec<bool> {
    let n = match p.ctor {
        Ctor::Slit(n) => n,
        _ => 0,
    };
    // Likewise a second IMSIC through add_imsic and a second set_log_area: the crate refuses them today
    // (one IMSIC per MADT, one log area), but no property demands the refusal -- a crate that handled
    // the second call correctly would keep them all.
    let mut imsic = false;
    let mut tpm_log = false;
    flat.iter()
        .map(|op| match op {
            Op::SlitSet(a, b, _) => *a >= n || *b >= n,
            Op::Imsic { via_add_imsic: true, .. } => std::mem::replace(&mut imsic, true),
            Op::Tpm2Log(..) => std::mem::replace(&mut tpm_log, true),
            _ => false,
        })
        .collect()
}

/// Folds the observations of a driven history into the list of ops the reference must encode.
pub struct Tracker {
    must_refuse: Vec<bool>,
    open: Vec<bool>,
    next: usize,
    pub accepted: Vec<Op>,
    /// an op with an unspecified outcome was accepted: nothing after it can be judged
    pub undefined: bool,
}

impl Tracker {
    pub fn new(p: &Program, flat: &[Op]) -> Self {
        Tracker { must_refuse: refusal_mask(p, flat), open: open_mask(p, flat), next: 0, accepted: Vec::new(), undefined: false }
    }
    /// call on every observation, in order; returns the kind of a refusal mismatch of the op just applied
    pub fn observe(&mut self, flat: &[Op], step: usize, refused: bool) -> Option<&'static str> {
        while self.next < step {
            let i = self.next;
            let was_refused = refused && i + 1 == step; // refused ops are always observed
            if self.open[i] {
                if !was_refused {
                    self.undefined = true;
                }
            } else if !self.must_refuse[i] {
                self.accepted.push(flat[i].clone());
            }
            self.next += 1;
        }
        if step == 0 || self.open[step - 1] {
            return None;
        }
        match (refused, self.must_refuse[step - 1]) {
            (true, false) => Some("refused-valid"),
            (false, true) => Some("accepted-invalid"),
            _ => None,
        }
    }
}

/// Sdt::new refuses declared lengths below the header size
pub fn ctor_refused(p: &Program) -> bool {
    matches!(p.ctor, Ctor::Sdt { len, .. } if len < 36)
}
