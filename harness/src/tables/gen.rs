//! Decoder: choice sequence -> table Program. Total (every byte string
//! decodes to a program inside the documented domain), construction only.

use super::types::*;
use crate::engine::Choices;

pub const MAX_FLAT: u64 = 1200;

pub fn gen_hdr(s: &mut Choices) -> Hdr {
    Hdr { oem_id: s.bytes::<6>(), oem_table_id: s.bytes::<8>(), oem_rev: s.u32() }
}

pub fn gen_gas(s: &mut Choices) -> GasV {
    let pci = s.chance(40);
    GasV {
        pci,
        space: s.below(13) as u8,
        width: s.u8(),
        offset: s.u8(),
        access: s.below(5) as u8,
        addr: s.u64(),
        dev: s.below(32) as u8,
        func: s.below(8) as u8,
        reg: s.u16(),
    }
}

pub fn gen_bdf(s: &mut Choices) -> Bdf {
    Bdf { seg: s.u16(), bus: s.u8(), dev: s.below(32) as u8, func: s.below(8) as u8 }
}

fn small_len(s: &mut Choices, typical: u32, max: u32) -> u32 {
    if s.chance(24) {
        s.below(max + 1)
    } else {
        s.below(typical + 1)
    }
}

fn opt<T>(s: &mut Choices, f: impl FnOnce(&mut Choices) -> T) -> Option<T> {
    if s.bool() {
        Some(f(s))
    } else {
        None
    }
}

fn gen_bytes(s: &mut Choices, n: usize) -> Vec<u8> {
    let mode = s.below(3);
    (0..n)
        .map(|i| match mode {
            0 => (i as u8).wrapping_mul(7).wrapping_add(1),
            1 => 0xff,
            _ => s.byte(),
        })
        .collect()
}

fn gen_ctor(s: &mut Choices, kind: Kind) -> Ctor {
    match kind {
        Kind::Madt => Ctor::Madt(opt(s, |s| s.u32())),
        // mostly small matrices; sometimes a count that needs a second byte (255..=258)
        Kind::Slit => Ctor::Slit(match s.below(16) {
            0 => 255 + s.below(4),
            1 | 2 => s.below(41),
            _ => s.below(9),
        }),
        Kind::Rhct => Ctor::Rhct(s.u64()),
        Kind::Tpm2 => Ctor::Tpm2 { server: s.bool(), base: s.u64(), start: s.below(7) as u8 },
        Kind::TcpaClient => Ctor::TcpaClient { laml: s.u32(), lasa: s.u64() },
        Kind::Bert => Ctor::Bert { len: s.u32(), base: s.u64() },
        Kind::Sdt => {
            let len = match s.below(8) {
                0 => 36,
                1 => 4096,
                2 => 65535,
                3 => 65536,
                _ => 36 + s.below(265),
            };
            Ctor::Sdt { sig: s.bytes::<4>(), len, rev: s.u8() }
        }
        Kind::Rsdp => Ctor::Rsdp { xsdt: s.u64() },
        _ => Ctor::Plain,
    }
}

fn gen_idmaps(s: &mut Choices, iommus: u32) -> Option<Vec<IdMap>> {
    if iommus == 0 {
        // an id mapping needs an IOMMU offset; without one only None / empty exist
        return if s.bool() { Some(Vec::new()) } else { None };
    }
    if !s.bool() {
        return None;
    }
    let n = small_len(s, 3, 40);
    Some(
        (0..n)
            .map(|_| IdMap {
                src: s.u32(),
                dst: s.u32(),
                n: s.u32(),
                iommu: s.below(iommus),
                ats: s.bool(),
                pri: s.bool(),
                rciep: s.bool(),
            })
            .collect(),
    )
}

fn gen_aer_sets(s: &mut Choices, which: u8) -> Vec<AerSet> {
    let n = s.below(9);
    (0..n)
        .map(|_| {
            let k = match which {
                0 => s.below(8),
                1 => s.below(7),
                _ => {
                    let k = s.below(10);
                    if k >= 7 {
                        k + 1
                    } else {
                        k
                    }
                }
            };
            match k {
                0 => AerSet::NumRecords(s.u32()),
                1 => AerSet::MaxSections(s.u32()),
                2 => AerSet::DevCtl(s.u16()),
                3 => AerSet::UncMask(s.u32()),
                4 => AerSet::UncSev(s.u32()),
                5 => AerSet::CorMask(s.u32()),
                6 => AerSet::AerCap(s.u32()),
                7 => AerSet::RootCmd(s.u32()),
                8 => AerSet::SecUncMask(s.u32()),
                9 => AerSet::SecUncSev(s.u32()),
                _ => AerSet::SecAerCap(s.u32()),
            }
        })
        .collect()
}

fn gen_notif(s: &mut Choices) -> Notif {
    Notif {
        ty: s.below(16) as u8,
        conf_write_en: opt(s, |s| s.u16()),
        poll_interval: opt(s, |s| s.u32()),
        vector: opt(s, |s| s.u32()),
        pt_value: opt(s, |s| s.u32()),
        pt_window: opt(s, |s| s.u32()),
        et_value: opt(s, |s| s.u32()),
        et_window: opt(s, |s| s.u32()),
    }
}

fn gen_fadt_set(s: &mut Choices) -> FadtSet {
    match s.below(12) {
        0 => FadtSet::Dsdt32(s.u32()),
        1 => FadtSet::Dsdt64(s.u64()),
        2 => FadtSet::Fw32(s.u32()),
        3 => FadtSet::Fw64(s.u64()),
        4 => FadtSet::AcpiEnable,
        5 => FadtSet::AcpiDisable,
        6 | 7 => FadtSet::Flag(s.below(25) as u8),
        8 => FadtSet::GpeInfo(s.u32(), s.u32(), s.u8(), s.u8(), s.u8()),
        9 => FadtSet::Profile(s.below(9) as u8),
        10 => FadtSet::Field(s.below(44) as u8, s.u64()),
        _ => FadtSet::FieldGas(s.below(11) as u8, gen_gas(s)),
    }
}

pub fn gen_sdt_op(s: &mut Choices, cur_len: &mut u64) -> SdtOp {
    let off = |s: &mut Choices, cur: u64, w: u64| -> u64 {
        match s.below(10) {
            0 => 0,
            1 => 4,
            2 => 9,
            3 => cur.saturating_sub(w),     // last valid position
            4 => cur.saturating_sub(w) + 1, // one past
            5 => cur,
            6 => u64::MAX - s.below(16) as u64,
            7 => s.below(36) as u64,
            _ => {
                if cur == 0 {
                    0
                } else {
                    (s.raw(3) * cur) >> 24
                }
            }
        }
    };
    let cur = *cur_len;
    let op = match s.below(16) {
        0 => SdtOp::AppendU8(s.u8()),
        1 => SdtOp::AppendU16(s.u16()),
        2 => SdtOp::AppendU32(s.u32()),
        3 => SdtOp::AppendU64(s.u64()),
        4 => {
            let n = small_len(s, 12, 300) as usize;
            SdtOp::AppendSlice(gen_bytes(s, n))
        }
        5 => SdtOp::WriteU8(off(s, cur, 1), s.u8()),
        6 => SdtOp::WriteU16(off(s, cur, 2), s.u16()),
        7 => SdtOp::WriteU32(off(s, cur, 4), s.u32()),
        8 => SdtOp::WriteU64(off(s, cur, 8), s.u64()),
        9 => {
            let n = small_len(s, 12, 80) as usize;
            SdtOp::WriteSlice(off(s, cur, n as u64), gen_bytes(s, n))
        }
        10 => SdtOp::SinkByte(s.u8()),
        11 => SdtOp::SinkWord(s.u16()),
        12 => SdtOp::SinkDword(s.u32()),
        13 => SdtOp::SinkQword(s.u64()),
        14 => {
            let n = small_len(s, 12, 300) as usize;
            SdtOp::SinkVec(gen_bytes(s, n))
        }
        _ => SdtOp::UpdateChecksum,
    };
    *cur_len += match &op {
        SdtOp::AppendU8(_) | SdtOp::SinkByte(_) => 1,
        SdtOp::AppendU16(_) | SdtOp::SinkWord(_) => 2,
        SdtOp::AppendU32(_) | SdtOp::SinkDword(_) => 4,
        SdtOp::AppendU64(_) | SdtOp::SinkQword(_) => 8,
        SdtOp::AppendSlice(v) | SdtOp::SinkVec(v) => v.len() as u64,
        _ => 0,
    };
    op
}

/// generator state: how many handles of each kind exist so far
#[derive(Default)]
struct St {
    caches: u32,
    procs: u32,
    isas: u32,
    cmos: u32,
    iommus: u32,
    viot_h: u32,
    sdt_len: u64,
    slit_n: u32,
}

fn gen_op(s: &mut Choices, kind: Kind, st: &mut St) -> Option<Op> {
    Some(match kind {
        Kind::Xsdt => Op::XsdtEntry(s.u64()),
        Kind::Mcfg => Op::Ecam(s.u64(), s.u16(), s.u8(), s.u8()),
        Kind::Madt => match s.below(11) {
            0 => Op::Lapic(s.u8(), s.u8(), s.below(3) as u8),
            1 => Op::IoApic(s.u8(), s.u32(), s.u32()),
            2 => {
                let status = s.below(3) as u8;
                let n = s.below(15);
                let sets = (0..n)
                    .map(|_| match s.below(14) {
                        0 => GiccSet::CpuIf(s.u32()),
                        1 => GiccSet::Uid(s.u32()),
                        2 => GiccSet::ParkVer(s.u32()),
                        3 => GiccSet::PerfIrq(s.u32(), s.bool()),
                        4 => GiccSet::Parked(s.u64()),
                        5 => GiccSet::Base(s.u64()),
                        6 => GiccSet::Gicv(s.u64()),
                        7 => GiccSet::Gich(s.u64()),
                        8 => GiccSet::MaintIrq(s.u32(), s.bool()),
                        9 => GiccSet::Redist(s.u64()),
                        10 => GiccSet::Mpidr(s.u64()),
                        11 => GiccSet::Eff(s.u8()),
                        12 => GiccSet::Spe(s.u16()),
                        _ => GiccSet::Trbe(s.u16()),
                    })
                    .collect();
                Op::Gicc { status, sets }
            }
            3 => Op::Gicd(s.u32(), s.u64(), s.below(5) as u8),
            4 => Op::GicMsi {
                frame: opt(s, |s| s.u32()),
                base: opt(s, |s| s.u64()),
                spi: opt(s, |s| (s.u16(), s.u16())),
            },
            5 => Op::Gicr(s.u64(), s.u32()),
            6 => Op::Its(s.u32(), s.u64()),
            7 => Op::Rintc {
                status: s.below(3) as u8,
                hart: s.u64(),
                uid: s.u32(),
                ext: s.u32(),
                imsic_base: s.u64(),
                imsic_size: s.u32(),
            },
            8 => Op::Imsic {
                via_add_imsic: s.bool(),
                s: s.u16(),
                g: s.u16(),
                gib: s.u8(),
                hib: s.u8(),
                grib: s.u8(),
                gris: s.u8(),
            },
            9 => Op::Aplic {
                id: s.u8(),
                hw: s.bytes::<8>(),
                idcs: s.u16(),
                gsi: s.u32(),
                addr: s.u64(),
                size: s.u32(),
                srcs: s.u16(),
            },
            _ => Op::Plic {
                id: s.u8(),
                hw: s.bytes::<8>(),
                srcs: s.u16(),
                prio: s.u16(),
                size: s.u32(),
                addr: s.u64(),
                gsi: s.u32(),
            },
        },
        Kind::Srat => match s.below(3) {
            0 => {
                let n = s.below(5);
                Op::SratMem { pd: s.u32(), base: s.u64(), len: s.u64(), flags: (0..n).map(|_| s.below(3) as u8).collect() }
            }
            1 => {
                let n = s.below(4);
                Op::SratGi {
                    pd: s.u32(),
                    acpi: opt(s, |s| (s.bytes::<8>(), s.bytes::<4>())),
                    pci: gen_bdf(s),
                    flags: (0..n).map(|_| s.below(2) as u8).collect(),
                }
            }
            _ => Op::SratRintc { uid: s.bytes::<4>(), clock: s.u32(), pd: opt(s, |s| s.u32()), enabled: s.below(3) as u8 },
        },
        Kind::Slit => {
            if st.slit_n == 0 {
                return None;
            }
            let a = s.below(st.slit_n);
            let b = match s.below(4) {
                0 => a, // diagonal
                _ => s.below(st.slit_n),
            };
            // rarely a domain outside the matrix (outcome unspecified: see expect::open_mask)
            let (a, b) = match s.below(24) {
                0 => (st.slit_n + s.below(3), b),
                1 => (a, st.slit_n + s.below(3)),
                _ => (a, b),
            };
            Op::SlitSet(a, b, s.u8())
        }
        Kind::Hmat => match s.below(3) {
            0 => Op::HmatProx(s.u32(), s.u32()),
            1 => {
                let (ni, nt) = match s.below(8) {
                    0 => (0, s.below(4)),
                    1 => (s.below(4), 0),
                    2 => (1, 1 + s.below(8)),
                    3 => (1 + s.below(8), 1),
                    4 => (1 + s.below(32), 1 + s.below(32)),
                    _ => (1 + s.below(6), 1 + s.below(6)),
                };
                let n = small_len(s, 8, 60);
                let mut ops = Vec::new();
                for _ in 0..n {
                    let k = s.below(8);
                    let o = match k {
                        0 if ni > 0 => SllbiOp::Init(s.below(ni), s.u32()),
                        1 if nt > 0 => SllbiOp::Target(s.below(nt), s.u32()),
                        6 => SllbiOp::NonSeq,
                        7 => SllbiOp::MinXfer,
                        _ if ni > 0 && nt > 0 => SllbiOp::Entry(s.below(ni), s.below(nt), s.u16()),
                        _ => SllbiOp::NonSeq,
                    };
                    ops.push(o);
                }
                Op::HmatSllbi { loc: s.below(4) as u8, dt: s.below(6) as u8, mts: s.below(12) as u8, unit: s.u64(), ni, nt, ops }
            }
            _ => {
                let n = small_len(s, 4, 70);
                Op::HmatCache {
                    pd: s.u32(),
                    size: s.u64(),
                    total: s.below(4) as u8,
                    level: s.below(4) as u8,
                    assoc: s.below(3) as u8,
                    policy: s.below(3) as u8,
                    line: s.u16(),
                    handles: (0..n).map(|_| s.u16()).collect(),
                }
            }
        },
        Kind::Pptt => {
            if s.below(5) < 2 {
                let n = s.below(10);
                let mut sets = Vec::new();
                for _ in 0..n {
                    sets.push(match s.below(9) {
                        0 => CacheSet::Size(s.u32()),
                        1 => CacheSet::Sets(s.u32()),
                        2 => CacheSet::Assoc(s.u8()),
                        3 => CacheSet::Alloc(s.below(3) as u8),
                        4 => CacheSet::Type(s.below(3) as u8),
                        5 => CacheSet::Policy(s.below(2) as u8),
                        6 => CacheSet::Line(s.u16()),
                        7 => CacheSet::Id(s.u32()),
                        _ => {
                            if st.caches > 0 {
                                CacheSet::Next(s.below(st.caches))
                            } else {
                                CacheSet::Id(s.u32())
                            }
                        }
                    });
                }
                st.caches += 1;
                Op::PpttCache { sets }
            } else {
                let parent = if st.procs > 0 && s.bool() { Some(s.below(st.procs)) } else { None };
                let nf = s.below(7);
                let flags = (0..nf).map(|_| s.below(5) as u8).collect();
                let nr = if st.caches == 0 {
                    0
                } else if s.chance(12) {
                    s.range(50, 58)
                } else if s.chance(16) {
                    s.range(6, 49)
                } else {
                    s.below(6)
                };
                let res = (0..nr).map(|_| s.below(st.caches)).collect();
                st.procs += 1;
                Op::PpttProc { parent, id: s.u32(), flags, res, raw_flags: if s.chance(20) { Some(s.u32()) } else { None } }
            }
        }
        Kind::Rhct => {
            let k = s.below(4);
            if k == 3 && st.isas > 0 {
                let nc = if st.cmos == 0 {
                    0
                } else if s.chance(12) {
                    s.range(4, 70)
                } else {
                    s.below(4)
                };
                Op::RhctHart { uid: s.u32(), isa: s.below(st.isas), cmos: (0..nc).map(|_| s.below(st.cmos)).collect() }
            } else if k == 1 {
                Op::RhctMmu(s.below(3) as u8)
            } else if k == 2 {
                st.cmos += 1;
                Op::RhctCmo(s.u8(), s.u8(), s.u8())
            } else {
                st.isas += 1;
                let len = match s.below(8) {
                    0 => s.below(4),
                    1 => 240 + s.below(20),
                    2 => 41 + s.below(200),
                    // (rarely) around the powers of two up to the largest string a node can hold
                    3 if s.chance(10) => s.pick(&[511u32, 512, 1023, 1024, 4095, 4096, 32_767, 32_768, 65_524, 65_525]),
                    _ => s.below(41),
                };
                Op::RhctIsa(len)
            }
        }
        Kind::Rimt => match s.below(3) {
            0 => {
                st.iommus += 1;
                Op::RimtIommu {
                    id: s.u16(),
                    base: opt(s, |s| s.u64()),
                    pci: opt(s, gen_bdf),
                    prox: opt(s, |s| s.u32()),
                    wires: opt(s, |s| {
                        let n = small_len(s, 3, 30);
                        (0..n).map(|_| (s.u32(), s.bool(), s.bool(), s.u16())).collect()
                    }),
                }
            }
            1 => Op::RimtRc { id: s.u16(), seg: s.u16(), ats: s.bool(), pri: s.bool(), maps: gen_idmaps(s, st.iommus) },
            _ => {
                let name_len = match s.below(7) {
                    0 => s.below(3),
                    1 => 250 + s.below(12),
                    2 => 41 + s.below(210),
                    3 if s.chance(16) => s.pick(&[511u32, 512, 1023, 1024, 4095, 4096]),
                    _ => s.below(41),
                };
                Op::RimtPlat { id: s.u16(), name_len, maps: gen_idmaps(s, st.iommus) }
            }
        },
        Kind::Viot => {
            let k = s.below(4);
            if st.viot_h == 0 || k == 0 {
                st.viot_h += 1;
                Op::ViotPciIommu(gen_bdf(s))
            } else if k == 1 {
                st.viot_h += 1;
                Op::ViotMmioIommu(s.u64())
            } else if k == 2 {
                Op::ViotPciRange { first: gen_bdf(s), last: gen_bdf(s), h: s.below(st.viot_h) }
            } else {
                Op::ViotMmioEp { id: s.u32(), base: s.u64(), h: s.below(st.viot_h) }
            }
        }
        Kind::Cedt => match s.below(4) {
            0 => Op::Chbs(s.u32(), s.below(2) as u8, s.u64()),
            1 => {
                let ways = s.below(8) as u8;
                let nw = WAYS_COUNT[ways as usize];
                let nr = s.below(7);
                let restr = (0..nr).map(|_| s.below(5) as u8).collect();
                // a mismatched target list is a documented refusal; generated rarely
                let nt = if s.chance(10) { s.below(18) } else { nw };
                Op::Cfmws {
                    base: s.u64(),
                    size: s.u64(),
                    arith: s.below(2) as u8,
                    gran: s.below(7) as u8,
                    ways,
                    qtg: s.u16(),
                    restr,
                    targets: (0..nt).map(|_| s.bytes::<4>()).collect(),
                }
            }
            2 => {
                let n = if s.chance(10) { s.range(250, 255) } else if s.chance(10) { s.range(5, 249) } else { s.below(5) };
                Op::Cxims { gran: s.below(7) as u8, maps: (0..n).map(|_| s.u64()).collect() }
            }
            _ => Op::Rdpas { bdf: gen_bdf(s), proto: s.below(2) as u8, base: s.u64() },
        },
        Kind::Hest => match s.below(5) {
            0 => Op::AerRoot { dev: opt(s, |s| (s.below(2) as u8, gen_bdf(s))), sets: gen_aer_sets(s, 0) },
            1 => Op::AerDev { dev: opt(s, |s| (s.below(2) as u8, gen_bdf(s))), sets: gen_aer_sets(s, 1) },
            2 => Op::AerBridge { dev: opt(s, |s| (s.below(2) as u8, gen_bdf(s))), sets: gen_aer_sets(s, 2) },
            k => {
                let v2 = k == 4;
                let n = s.below(8);
                let sets = (0..n)
                    .map(|_| match s.below(if v2 { 9 } else { 6 }) {
                        0 => GhesSet::NumRecords(s.u32()),
                        1 => GhesSet::MaxSections(s.u32()),
                        2 => GhesSet::MaxRaw(s.u32()),
                        3 => GhesSet::StatusAddr(gen_gas(s)),
                        4 => GhesSet::Notification(gen_notif(s)),
                        5 => GhesSet::BlockLen(s.u32()),
                        6 => GhesSet::AckReg(gen_gas(s)),
                        7 => GhesSet::AckPreserve(s.u64()),
                        _ => GhesSet::AckWrite(s.u64()),
                    })
                    .collect();
                Op::Ghes { v2, id: s.u16(), enabled: s.below(2) as u8, sets }
            }
        },
        Kind::Rqsc => {
            let n = small_len(s, 3, 20);
            let res = (0..n)
                .map(|_| RqscRes {
                    ty: s.below(2) as u8,
                    flags: s.u16(),
                    id: match s.below(5) {
                        0 => RqscId::Cache(s.u32()),
                        1 => RqscId::Mem(s.u32(), s.u64()),
                        2 => RqscId::Acpi(s.u64(), s.u32()),
                        3 => RqscId::Pci(s.u32()),
                        _ => {
                            // the crate frames any payload length consistently (the documented
                            // content is id1[8] id2[4] data, shorter payloads are still self-describing)
                            let l = if s.chance(60) { s.below(12) as usize } else { 12 + small_len(s, 8, 300) as usize };
                            RqscId::Vendor(s.u8(), gen_bytes(s, l))
                        }
                    },
                })
                .collect();
            Op::RqscCtl { ty: s.below(2) as u8, reg: gen_gas(s), rcid: s.u32(), mcid: s.u32(), flags: s.u16(), res }
        }
        Kind::Tpm2 => Op::Tpm2Log(s.u32(), s.u64()),
        Kind::TcpaServer => Op::Tcpa(match s.below(9) {
            0 => TcpaSet::LogArea(s.u64(), s.u64()),
            1 => TcpaSet::ActiveLow,
            2 => TcpaSet::Edge,
            3 => TcpaSet::SciGpe(s.u8()),
            4 => TcpaSet::Gsi(s.u32()),
            5 => TcpaSet::Pnp,
            6 => TcpaSet::Sbdf(s.u8(), s.u8(), s.below(32) as u8, s.below(8) as u8),
            7 => TcpaSet::Base(gen_gas(s)),
            _ => TcpaSet::Config(gen_gas(s)),
        }),
        Kind::Fadt => Op::Fadt(gen_fadt_set(s)),
        Kind::Facs => Op::FacsField(s.below(7) as u8, s.u64()),
        Kind::Sdt => Op::Sdt(gen_sdt_op(s, &mut st.sdt_len)),
        Kind::TcpaClient | Kind::Bert | Kind::Spcr | Kind::Rsdp => return None,
    })
}

pub const WAYS_COUNT: [u32; 8] = [1, 2, 4, 8, 16, 3, 6, 12];
pub const WAYS_CODE: [u8; 8] = [0, 1, 2, 3, 4, 8, 9, 10];

fn repeatable(op: &Op) -> bool {
    !matches!(
        op,
        Op::Imsic { via_add_imsic: true, .. } | Op::Tpm2Log(..) | Op::Sdt(..) | Op::Tcpa(..) | Op::Fadt(..) | Op::FacsField(..) | Op::Repeat(..)
    )
}

fn handle_gain(op: &Op, st: &mut St, extra: u32) {
    match op {
        Op::PpttCache { .. } => st.caches += extra,
        Op::PpttProc { .. } => st.procs += extra,
        Op::RhctIsa(..) => st.isas += extra,
        Op::RhctCmo(..) => st.cmos += extra,
        Op::RimtIommu { .. } => st.iommus += extra,
        Op::ViotPciIommu(..) | Op::ViotMmioIommu(..) => st.viot_h += extra,
        _ => {}
    }
}

pub fn gen_program_of(s: &mut Choices, kind: Kind) -> Program {
    let hdr = gen_hdr(s);
    let ctor = gen_ctor(s, kind);
    let mut st = St::default();
    if let Ctor::Slit(n) = ctor {
        st.slit_n = n;
    }
    if let Ctor::Sdt { len, .. } = ctor {
        st.sdt_len = len as u64;
    }
    let mut ops = Vec::new();
    let mut flat = 0u64;
    while !s.exhausted() && flat < MAX_FLAT && ops.len() < 600 {
        let Some(op) = gen_op(s, kind, &mut st) else { break };
        if repeatable(&op) && s.chance(14) {
            let n = match s.below(6) {
                0 => 2 + s.below(7),
                1 | 2 => 253 + s.below(6),
                3 => 509 + s.below(6),
                _ => 2 + s.below(40),
            };
            // (a giant string is not repeated hundreds of times: tens of MiB per observed step)
            let giant = matches!(&op, Op::RhctIsa(l) if *l > 300) || matches!(&op, Op::RimtPlat { name_len, .. } if *name_len > 300);
            let n = if giant { n.min(3) } else { n };
            let n = n.min((MAX_FLAT - flat) as u32).max(1);
            handle_gain(&op, &mut st, n - 1);
            flat += n as u64;
            ops.push(Op::Repeat(Box::new(op), n));
        } else {
            flat += 1;
            ops.push(op);
        }
    }
    Program { kind, hdr, ctor, ops }
}

pub fn gen_program(s: &mut Choices, kinds: &[Kind]) -> Program {
    let kind = s.pick(kinds);
    gen_program_of(s, kind)
}

/// `op` as executed at repetition `i` of a Repeat: scalar arguments vary with
/// the counter so that repeated entries are not byte-identical
pub fn perturb(op: &Op, i: u32) -> Op {
    let mut o = op.clone();
    let k = i as u64;
    match &mut o {
        Op::XsdtEntry(v) => *v = v.wrapping_add(k.wrapping_mul(0x0101)),
        Op::Ecam(b, sg, ..) => {
            *b = b.wrapping_add(k << 20);
            *sg = sg.wrapping_add(i as u16);
        }
        Op::Lapic(u, a, _) => {
            *u = u.wrapping_add(i as u8);
            *a = a.wrapping_add((i >> 8) as u8);
        }
        Op::IoApic(id, a, _) => {
            *id = id.wrapping_add(i as u8);
            *a = a.wrapping_add(i << 12);
        }
        Op::Gicd(id, ..) | Op::Its(id, ..) => *id = id.wrapping_add(i),
        Op::Gicr(b, _) => *b = b.wrapping_add(k << 16),
        Op::Rintc { hart, uid, .. } => {
            *hart = hart.wrapping_add(k);
            *uid = uid.wrapping_add(i);
        }
        Op::SratMem { pd, .. } | Op::SratGi { pd, .. } => *pd = pd.wrapping_add(i),
        Op::SratRintc { clock, .. } => *clock = clock.wrapping_add(i),
        Op::HmatProx(a, _) => *a = a.wrapping_add(i),
        Op::PpttProc { id, .. } => *id = id.wrapping_add(i),
        Op::RhctCmo(a, ..) => *a = a.wrapping_add(i as u8),
        Op::RhctHart { uid, .. } => *uid = uid.wrapping_add(i),
        Op::RimtIommu { id, .. } | Op::RimtRc { id, .. } | Op::RimtPlat { id, .. } => *id = id.wrapping_add(i as u16),
        Op::ViotMmioIommu(b) => *b = b.wrapping_add(k << 12),
        Op::ViotMmioEp { id, .. } => *id = id.wrapping_add(i),
        Op::Chbs(u, ..) => *u = u.wrapping_add(i),
        Op::Rdpas { base, .. } => *base = base.wrapping_add(k),
        Op::Ghes { id, .. } => *id = id.wrapping_add(i as u16),
        Op::RqscCtl { rcid, .. } => *rcid = rcid.wrapping_add(i),
        Op::SlitSet(_, _, v) => *v = v.wrapping_add(i as u8),
        _ => {}
    }
    o
}

/// Flat op list (repeats expanded, perturbed).
pub fn flatten(p: &Program) -> Vec<Op> {
    let mut out = Vec::with_capacity(p.flat_len() as usize);
    for op in &p.ops {
        match op {
            Op::Repeat(inner, n) => {
                for i in 0..*n {
                    out.push(perturb(inner, i));
                }
            }
            o => out.push(o.clone()),
        }
    }
    out
}
