//! Driver: applies a table Program to the REAL crate and reports the emitted
//! image after the constructor and after (selected) prefixes of the history.

use super::types::*;
use acpi_tables::gas::{AccessSize, AddressSpace, GAS};
use acpi_tables::{cedt, facs, fadt, hest, hmat, madt, mcfg, pptt, rhct, rimt, rqsc, rsdp, sdt, slit, spcr, srat, tpm2, viot, xsdt};
use acpi_tables::{Aml, AmlSink};
use std::collections::HashMap;
use std::panic::{catch_unwind, AssertUnwindSafe};
use std::sync::{Mutex, OnceLock};

pub fn ser(a: &dyn Aml) -> Vec<u8> {
    // an object may be serialised any number of times: the bytes judged are those of an object
    // that has been serialised before (into a sink that keeps nothing)
    crate::aml::build::peek(a);
    crate::aml::build::ser_sinks_upto(a, 8192)
}

/// deterministic text of a given length (ISA strings, platform names)
pub fn text_of(len: usize) -> String {
    // exactly `len` bytes; some lengths carry a two-byte character (the crate takes any &str, so
    // characters and bytes must not be confused) at the front or at the end
    let ascii = |n: usize| -> String { (0..n).map(|i| (b'a' + ((i * 7 + len) % 26) as u8) as char).collect() };
    if len >= 2 && len % 5 == 3 {
        format!("\u{e9}{}", ascii(len - 2))
    } else if len >= 2 && len % 7 == 5 {
        format!("{}\u{df}", ascii(len - 2))
    } else {
        ascii(len)
    }
}

pub fn static_text(len: usize) -> &'static str {
    static POOL: OnceLock<Mutex<HashMap<usize, &'static str>>> = OnceLock::new();
    let m = POOL.get_or_init(|| Mutex::new(HashMap::new()));
    let mut g = m.lock().unwrap();
    g.entry(len).or_insert_with(|| Box::leak(text_of(len).into_boxed_str()))
}

pub fn mk_space(i: u8) -> AddressSpace {
    match i {
        0 => AddressSpace::SystemMemory,
        1 => AddressSpace::SystemIo,
        2 => AddressSpace::PciConfigSpace,
        3 => AddressSpace::EmbeddedController,
        4 => AddressSpace::Smbus,
        5 => AddressSpace::SystemCmos,
        6 => AddressSpace::PciBarTarget,
        7 => AddressSpace::Ipmi,
        8 => AddressSpace::GeneralPursposeIo,
        9 => AddressSpace::GenericSerialBus,
        10 => AddressSpace::PlatformCommunicationsChannel,
        11 => AddressSpace::PlatformRuntimeMechanism,
        _ => AddressSpace::FunctionalFixedHardware,
    }
}
pub fn mk_access(i: u8) -> AccessSize {
    match i {
        0 => AccessSize::Undefined,
        1 => AccessSize::ByteAccess,
        2 => AccessSize::WordAccess,
        3 => AccessSize::DwordAccess,
        _ => AccessSize::QwordAccess,
    }
}
pub fn mk_gas(g: &GasV) -> GAS {
    if g.pci {
        GAS::new_pci_config(g.width, mk_access(g.access), g.dev, g.func, g.reg)
    } else {
        GAS::new(mk_space(g.space), g.width, g.offset, mk_access(g.access), g.addr)
    }
}

#[derive(Clone, Copy, Debug, PartialEq, Eq)]
pub enum HKind {
    Cache,
    Proc,
    Isa,
    Cmo,
    Iommu,
    Viot,
}

#[derive(Clone, Copy, Debug)]
pub struct HandleRec {
    pub kind: HKind,
    /// the value the crate returned
    pub value: u32,
    /// index of the flat op that returned it
    pub op: usize,
}

// Handles are opaque. Their value is read back through the public API only -- through the reference
// field of a node built from the handle -- never through their Debug text, which nothing specifies.
fn proc_handle_value(h: &pptt::ProcessorHandle) -> u32 {
    // parent field of a processor node: bytes 8..12
    let b = ser(&pptt::ProcessorNode::new(Some(h), 0));
    u32::from_le_bytes([b[8], b[9], b[10], b[11]])
}

fn cache_handle_value(h: &pptt::CacheHandle) -> u32 {
    // first private resource of a processor node: bytes 20..24
    let b = ser(&pptt::ProcessorNode::new(None, 0).add_cache(h));
    u32::from_le_bytes([b[20], b[21], b[22], b[23]])
}

/// an ISA-string handle of a scratch table (hart-info nodes cannot be built without one)
fn scratch_isa() -> rhct::IsaStringHandle {
    let mut t = rhct::RHCT::new(*b"OEMIDX", *b"TABLEID0", 1, 1);
    t.add_isa_string("rv64")
}

fn isa_handle_value(h: &rhct::IsaStringHandle) -> u32 {
    // first offset of a hart-info node: bytes 12..16
    let b = ser(&rhct::HartInfoNode::new(0, h));
    u32::from_le_bytes([b[12], b[13], b[14], b[15]])
}

fn cmo_handle_value(h: &rhct::CmoHandle) -> u32 {
    // second offset of a hart-info node: bytes 16..20
    let isa = scratch_isa();
    let b = ser(&rhct::HartInfoNode::new(0, &isa).with_cmo(h));
    u32::from_le_bytes([b[16], b[17], b[18], b[19]])
}

fn iommu_offset_value(h: rimt::IommuOffset) -> u32 {
    // IommuOffset is opaque: read it back through the reference field that an
    // id mapping built from it carries (bytes 12..16 of the mapping)
    let rc = rimt::PcieRootComplex::new(0, 0, false, false, Some(vec![rimt::IdMapping::new(0, 0, 0, h, false, false, false)]));
    let b = ser(&rc);
    u32::from_le_bytes([b[16 + 12], b[16 + 13], b[16 + 14], b[16 + 15]])
}

fn viot_handle_value(h: &viot::TranslationHandle) -> u32 {
    let ep = viot::MmioEndpoint::new(0, 0, h);
    let b = ser(&ep);
    u16::from_le_bytes([b[16], b[17]]) as u32
}

enum Live {
    Xsdt(xsdt::XSDT),
    Mcfg(mcfg::MCFG),
    Madt(madt::MADT),
    Srat(srat::SRAT),
    Slit(slit::SLIT),
    Hmat(hmat::HMAT),
    Pptt(pptt::PPTT, Vec<Option<pptt::CacheHandle>>, Vec<Option<pptt::ProcessorHandle>>),
    Rhct(rhct::RHCT, Vec<Option<rhct::IsaStringHandle>>, Vec<Option<rhct::CmoHandle>>),
    Rimt(rimt::RIMT, Vec<Option<rimt::IommuOffset>>),
    Viot(viot::VIOT, Vec<Option<viot::TranslationHandle>>),
    Cedt(cedt::CEDT),
    Hest(hest::HEST),
    Rqsc(rqsc::RQSC),
    Tpm2(tpm2::Tpm2),
    TcpaClient(tpm2::TpmClient1_2),
    TcpaServer(tpm2::TpmServer1_2),
    Fadt(fadt::FADTBuilder),
    Bert(acpi_tables::bert::BERT),
    Spcr(spcr::SPCR<'static>),
    Sdt(sdt::Sdt),
    Rsdp(rsdp::Rsdp),
    Facs(facs::FACS),
}

fn construct(p: &Program) -> Live {
    let h = &p.hdr;
    match (&p.kind, &p.ctor) {
        (Kind::Xsdt, _) => Live::Xsdt(xsdt::XSDT::new(h.oem_id, h.oem_table_id, h.oem_rev)),
        (Kind::Mcfg, _) => Live::Mcfg(mcfg::MCFG::new(h.oem_id, h.oem_table_id, h.oem_rev)),
        (Kind::Madt, Ctor::Madt(a)) => Live::Madt(madt::MADT::new(
            h.oem_id,
            h.oem_table_id,
            h.oem_rev,
            match a {
                None => madt::LocalInterruptController::Riscv,
                Some(x) => madt::LocalInterruptController::Address(*x),
            },
        )),
        (Kind::Srat, _) => Live::Srat(srat::SRAT::new(h.oem_id, h.oem_table_id, h.oem_rev)),
        (Kind::Slit, Ctor::Slit(n)) => Live::Slit(slit::SLIT::new(h.oem_id, h.oem_table_id, h.oem_rev, *n)),
        (Kind::Hmat, _) => Live::Hmat(hmat::HMAT::new(h.oem_id, h.oem_table_id, h.oem_rev)),
        (Kind::Pptt, _) => Live::Pptt(pptt::PPTT::new(h.oem_id, h.oem_table_id, h.oem_rev), vec![], vec![]),
        (Kind::Rhct, Ctor::Rhct(tb)) => Live::Rhct(rhct::RHCT::new(h.oem_id, h.oem_table_id, h.oem_rev, *tb), vec![], vec![]),
        (Kind::Rimt, _) => Live::Rimt(rimt::RIMT::new(h.oem_id, h.oem_table_id, h.oem_rev), vec![]),
        (Kind::Viot, _) => Live::Viot(viot::VIOT::new(h.oem_id, h.oem_table_id, h.oem_rev), vec![]),
        (Kind::Cedt, _) => Live::Cedt(cedt::CEDT::new(h.oem_id, h.oem_table_id, h.oem_rev)),
        (Kind::Hest, _) => Live::Hest(hest::HEST::new(h.oem_id, h.oem_table_id, h.oem_rev)),
        (Kind::Rqsc, _) => Live::Rqsc(rqsc::RQSC::new(h.oem_id, h.oem_table_id, h.oem_rev)),
        (Kind::Tpm2, Ctor::Tpm2 { server, base, start }) => Live::Tpm2(tpm2::Tpm2::new(
            h.oem_id,
            h.oem_table_id,
            h.oem_rev,
            if *server { tpm2::PlatformClass::Server } else { tpm2::PlatformClass::Client },
            *base,
            mk_start(*start),
        )),
        (Kind::TcpaClient, Ctor::TcpaClient { laml, lasa }) => {
            Live::TcpaClient(tpm2::TpmClient1_2::new(h.oem_id, h.oem_table_id, h.oem_rev, *laml, *lasa))
        }
        (Kind::TcpaServer, _) => Live::TcpaServer(tpm2::TpmServer1_2::new(h.oem_id, h.oem_table_id, h.oem_rev)),
        (Kind::Fadt, _) => Live::Fadt(fadt::FADTBuilder::new(h.oem_id, h.oem_table_id, h.oem_rev)),
        (Kind::Bert, Ctor::Bert { len, base }) => Live::Bert(acpi_tables::bert::BERT::new(h.oem_id, h.oem_table_id, h.oem_rev, *len, *base)),
        (Kind::Spcr, _) => Live::Spcr(spcr::SPCR::sbi(h.oem_id, h.oem_table_id, h.oem_rev)),
        (Kind::Sdt, Ctor::Sdt { sig, len, rev }) => Live::Sdt(sdt::Sdt::new(*sig, *len, *rev, h.oem_id, h.oem_table_id, h.oem_rev)),
        (Kind::Rsdp, Ctor::Rsdp { xsdt }) => Live::Rsdp(rsdp::Rsdp::new(h.oem_id, *xsdt)),
        (Kind::Facs, _) => Live::Facs(facs::FACS::new()),
        (k, c) => panic!("harness: ctor {:?} does not fit kind {:?}", c, k),
    }
}

pub fn mk_start(i: u8) -> tpm2::StartMethod {
    match i {
        0 => tpm2::StartMethod::LegacyUse,
        1 => tpm2::StartMethod::AcpiStart,
        2 => tpm2::StartMethod::Mmio,
        3 => tpm2::StartMethod::Crb,
        4 => tpm2::StartMethod::CrbAndAcpiStart,
        5 => tpm2::StartMethod::CrbAndSmcHvc,
        _ => tpm2::StartMethod::I2cFifo,
    }
}
pub const START_CODES: [u32; 7] = [1, 2, 6, 7, 8, 11, 12];

pub fn mk_lapic_status(i: u8) -> madt::EnabledStatus {
    match i {
        0 => madt::EnabledStatus::Disabled,
        1 => madt::EnabledStatus::Enabled,
        _ => madt::EnabledStatus::DisabledOnlineCapable,
    }
}
fn mk_hart_status(i: u8) -> madt::HartStatus {
    match i {
        0 => madt::HartStatus::Disabled,
        1 => madt::HartStatus::Enabled,
        _ => madt::HartStatus::OnlineCapable,
    }
}
fn mk_gicver(i: u8) -> madt::GicVersion {
    match i {
        0 => madt::GicVersion::Unspecified,
        1 => madt::GicVersion::GICv1,
        2 => madt::GicVersion::GICv2,
        3 => madt::GicVersion::GICv3,
        _ => madt::GicVersion::GICv4,
    }
}

pub fn mk_gicc(status: u8, sets: &[GiccSet]) -> madt::Gicc {
    let mut g = madt::Gicc::new(mk_lapic_status(status));
    let trig = |e: bool| if e { madt::Trigger::Edge } else { madt::Trigger::Level };
    for s in sets {
        g = match s {
            GiccSet::CpuIf(v) => g.cpu_interface_number(*v),
            GiccSet::Uid(v) => g.acpi_processor_uid(*v),
            GiccSet::ParkVer(v) => g.parking_protocol_version(*v),
            GiccSet::PerfIrq(v, e) => g.performance_interrupt(*v, trig(*e)),
            GiccSet::Parked(v) => g.parked_address(*v),
            GiccSet::Base(v) => g.base_address(*v),
            GiccSet::Gicv(v) => g.virtual_registers(*v),
            GiccSet::Gich(v) => g.control_block_registers(*v),
            GiccSet::MaintIrq(v, e) => g.maintenance_interrupt(*v, trig(*e)),
            GiccSet::Redist(v) => g.redistributor_base(*v),
            GiccSet::Mpidr(v) => g.mpidr(*v),
            GiccSet::Eff(v) => g.power_efficiency_class(*v),
            GiccSet::Spe(v) => g.overflow_interrupt(*v),
            GiccSet::Trbe(v) => g.trbe_interrupt(*v),
        };
    }
    g
}

pub fn mk_gicmsi(frame: &Option<u32>, base: &Option<u64>, spi: &Option<(u16, u16)>) -> madt::GicMsi {
    let mut m = madt::GicMsi::new();
    if let Some(f) = frame {
        m = m.gic_msi_frame_id(*f);
    }
    if let Some(b) = base {
        m = m.base_addr(*b);
    }
    if let Some((c, b)) = spi {
        m = m.spi_count_and_base(*c, *b);
    }
    m
}

pub fn mk_srat_mem(pd: u32, base: u64, len: u64, flags: &[u8]) -> srat::MemoryAffinity {
    let mut m = srat::MemoryAffinity::new(pd, base, len);
    for f in flags {
        m = match f {
            0 => m.enabled(),
            1 => m.hotpluggable(),
            _ => m.nonvolatile(),
        };
    }
    m
}

pub fn mk_srat_gi(pd: u32, acpi: &Option<([u8; 8], [u8; 4])>, pci: &Bdf, flags: &[u8]) -> srat::GenericInitiator {
    // both public ways to make a handle: the constructors and the enum variants themselves
    let h = match acpi {
        Some((hid, uid)) if pd % 2 == 0 => srat::Handle::new_acpi(*hid, *uid),
        Some((hid, uid)) => srat::Handle::Acpi { hid: *hid, uid: *uid },
        None if pd % 2 == 0 => srat::Handle::new_pci(pci.seg, pci.bus, pci.dev, pci.func),
        None => srat::Handle::Pci { segment: pci.seg, bus: pci.bus, device: pci.dev, function: pci.func },
    };
    let mut g = srat::GenericInitiator::new(pd, h);
    for f in flags {
        g = match f {
            0 => g.enabled(),
            _ => g.architectural(),
        };
    }
    g
}

pub fn mk_srat_rintc(uid: [u8; 4], clock: u32, pd: &Option<u32>, enabled: u8) -> srat::RintcAffinity {
    let mut r = srat::RintcAffinity::new(uid, clock);
    if let Some(p) = pd {
        r = r.proximity_domain(*p);
    }
    for _ in 0..enabled {
        r = r.enabled();
    }
    r
}

pub fn mk_sllbi(loc: u8, dt: u8, mts: u8, unit: u64, ni: u32, nt: u32, ops: &[SllbiOp]) -> hmat::SystemLocality {
    let lt = match loc {
        0 => hmat::LocalityType::Memory,
        1 => hmat::LocalityType::FirstLevelCache,
        2 => hmat::LocalityType::SecondLevelCache,
        _ => hmat::LocalityType::ThirdLevelCache,
    };
    let d = match dt {
        0 => hmat::DataType::AccessLatency,
        1 => hmat::DataType::ReadLatency,
        2 => hmat::DataType::WriteLatency,
        3 => hmat::DataType::AccessBandwidth,
        4 => hmat::DataType::ReadBandwidth,
        _ => hmat::DataType::WriteBandwidth,
    };
    use hmat::MinTransferSize as M;
    let m = [
        M::SizeByteAligned,
        M::Size64b,
        M::Size128b,
        M::Size256b,
        M::Size512b,
        M::Size1k,
        M::Size2k,
        M::Size4k,
        M::Size8k,
        M::Size16k,
        M::Size32k,
        M::Size64k,
    ][mts as usize];
    let mut s = hmat::SystemLocality::new(lt, d, m, unit, ni as usize, nt as usize);
    // The proximity-domain lists are caller data with no specified default: every entry is supplied
    // (zero unless an op sets it), so that what `new` leaves there never enters a verdict. (Matrix
    // cells do have a specified default, 0xFFFF -- C12 -- and are left alone.)
    for i in 0..ni as usize {
        s.set_initiator_value(i, 0);
    }
    for j in 0..nt as usize {
        s.set_target_value(j, 0);
    }
    for (k, o) in ops.iter().enumerate() {
        if k <= 2 || k == ops.len() / 2 {
            crate::aml::build::peek(&s); // serialised between two setter calls
        }
        match o {
            SllbiOp::Init(i, v) => s.set_initiator_value(*i as usize, *v),
            SllbiOp::Target(i, v) => s.set_target_value(*i as usize, *v),
            SllbiOp::Entry(i, j, v) => s.set_entry_value(*i as usize, *j as usize, *v),
            SllbiOp::NonSeq => s.non_sequential_transfers(),
            SllbiOp::MinXfer => s.minimum_transfer_size_required(),
        }
    }
    s
}

pub fn mk_side_cache(pd: u32, size: u64, total: u8, level: u8, assoc: u8, policy: u8, line: u16, handles: &[u16]) -> hmat::MemorySideCache {
    let cl = |i: u8| match i {
        0 => hmat::CacheLevel::None,
        1 => hmat::CacheLevel::One,
        2 => hmat::CacheLevel::Two,
        _ => hmat::CacheLevel::Three,
    };
    let a = || match assoc {
        0 => hmat::Associativity::None,
        1 => hmat::Associativity::DirectMapped,
        _ => hmat::Associativity::Complex,
    };
    let w = || match policy {
        0 => hmat::WritePolicy::None,
        1 => hmat::WritePolicy::Writeback,
        _ => hmat::WritePolicy::Writethrough,
    };
    let mut c = hmat::MemorySideCache::new(pd, size, cl(total), cl(level), a(), w(), line);
    let fill = |c: &mut hmat::MemorySideCache| {
        for (k, h) in handles.iter().enumerate() {
            if k == 1 {
                crate::aml::build::peek(&*c);
            }
            c.add_smbios_handle(*h);
        }
    };
    fill(&mut c);
    if handles.len() == 65_535 {
        // The 65536th handle is refused (C18) and must leave the structure as it was. The attempt is
        // made on a twin, which is the one judged if it refused there (a crate may also accept the
        // call and refuse later, at serialisation: then the twin is dropped).
        let mut twin = hmat::MemorySideCache::new(pd, size, cl(total), cl(level), a(), w(), line);
        fill(&mut twin);
        if catch_unwind(AssertUnwindSafe(|| twin.add_smbios_handle(0x7777))).is_err() {
            return twin;
        }
    }
    c
}

pub fn mk_cache_node(sets: &[CacheSet], caches: &[Option<pptt::CacheHandle>]) -> pptt::CacheNode {
    let mut b = pptt::CacheNodeBuilder::default();
    for s in sets {
        b = match s {
            CacheSet::Size(v) => b.size(*v),
            CacheSet::Sets(v) => b.sets(*v),
            CacheSet::Assoc(v) => b.associativity(*v),
            CacheSet::Alloc(v) => b.allocation_type(match v {
                0 => pptt::AllocationType::Read,
                1 => pptt::AllocationType::Write,
                _ => pptt::AllocationType::Both,
            }),
            CacheSet::Type(v) => b.cache_type(match v {
                0 => pptt::CacheType::Data,
                1 => pptt::CacheType::Instruction,
                _ => pptt::CacheType::Unified,
            }),
            CacheSet::Policy(v) => b.write_policy(if *v == 0 { pptt::WritePolicy::Writeback } else { pptt::WritePolicy::Writethrough }),
            CacheSet::Line(v) => b.line_size(*v),
            CacheSet::Id(v) => b.id(*v),
            CacheSet::Next(i) => b.next_level(caches[*i as usize].as_ref().expect("handle of a refused add")),
        };
    }
    b.to_node()
}

pub fn mk_proc_node(
    parent: &Option<u32>,
    id: u32,
    flags: &[u8],
    res: &[u32],
    raw_flags: &Option<u32>,
    caches: &[Option<pptt::CacheHandle>],
    procs: &[Option<pptt::ProcessorHandle>],
) -> pptt::ProcessorNode {
    let mut n = pptt::ProcessorNode::new(parent.map(|i| procs[i as usize].as_ref().expect("handle of a refused add")), id);
    if let Some(f) = raw_flags {
        n.flags = *f;
    }
    for f in flags {
        n = match f {
            0 => n.physical(),
            1 => n.valid(),
            2 => n.thread(),
            3 => n.leaf(),
            _ => n.identical(),
        };
    }
    for r in res {
        n = n.add_cache(caches[*r as usize].as_ref().expect("handle of a refused add"));
    }
    n
}

fn mk_idmaps(maps: &Option<Vec<IdMap>>, iommus: &[Option<rimt::IommuOffset>]) -> Option<Vec<rimt::IdMapping>> {
    maps.as_ref().map(|v| {
        v.iter()
            .map(|m| rimt::IdMapping::new(m.src, m.dst, m.n, iommus[m.iommu as usize].expect("handle of a refused add"), m.ats, m.pri, m.rciep))
            .collect()
    })
}

pub fn mk_cfmws(base: u64, size: u64, arith: u8, gran: u8, ways: u8, qtg: u16, restr: &[u8], targets: &[[u8; 4]]) -> cedt::CxlFixedMemory {
    use cedt::InterleaveWays as W;
    let w = [W::Ways1, W::Ways2, W::Ways4, W::Ways8, W::Ways16, W::Ways3, W::Ways6, W::Ways12][ways as usize];
    let mut f = cedt::CxlFixedMemory::new(
        base,
        size,
        if arith == 0 { cedt::InterleaveArithmetic::Modulo } else { cedt::InterleaveArithmetic::ModuloXor },
        mk_gran(gran),
        w,
        qtg,
    );
    for r in restr {
        f = match r {
            0 => f.cxl_type_2_memory(),
            1 => f.cxl_type_3_memory(),
            2 => f.volatile(),
            3 => f.persistent(),
            _ => f.fixed_configuration(),
        };
    }
    for (k, t) in targets.iter().enumerate() {
        if k == 1 && targets.len() as u32 == super::gen::WAYS_COUNT[ways as usize] {
            // (a window whose target list does not match its ways refuses to serialise)
            let _ = catch_unwind(AssertUnwindSafe(|| crate::aml::build::peek(&f)));
        }
        f.add_target(*t);
    }
    f
}

pub fn mk_gran(g: u8) -> cedt::InterleaveGranularity {
    use cedt::InterleaveGranularity as G;
    [G::Granularity256b, G::Granularity512b, G::Granularity1kb, G::Granularity2kb, G::Granularity4kb, G::Granularity8kb, G::Granularity16kb][g as usize]
}

fn ff(i: u8) -> hest::FirmwareFirst {
    if i == 0 {
        hest::FirmwareFirst::Disabled
    } else {
        hest::FirmwareFirst::Enabled
    }
}

pub fn mk_aer_root(dev: &Option<(u8, Bdf)>, sets: &[AerSet]) -> hest::PcieAerRootPort {
    let mut r = match dev {
        None => hest::PcieAerRootPort::new_global(),
        Some((f, b)) => hest::PcieAerRootPort::new_root_port(ff(*f), hest::PciDevice::new(b.bus, b.dev, b.func)),
    };
    for s in sets {
        r = match s {
            AerSet::NumRecords(v) => r.num_records(*v),
            AerSet::MaxSections(v) => r.max_sections(*v),
            AerSet::DevCtl(v) => r.device_control(*v),
            AerSet::UncMask(v) => r.uncorrectable_error_mask(*v),
            AerSet::UncSev(v) => r.uncorrectable_error_severity(*v),
            AerSet::CorMask(v) => r.correctable_error_mask(*v),
            AerSet::AerCap(v) => r.aer_cap_ctrl(*v),
            AerSet::RootCmd(v) => r.root_error_command(*v),
            _ => r,
        };
    }
    r
}
pub fn mk_aer_dev(dev: &Option<(u8, Bdf)>, sets: &[AerSet]) -> hest::PcieAerDevice {
    let mut r = match dev {
        None => hest::PcieAerDevice::new_global(),
        Some((f, b)) => hest::PcieAerDevice::new_root_port(ff(*f), hest::PciDevice::new(b.bus, b.dev, b.func)),
    };
    for s in sets {
        r = match s {
            AerSet::NumRecords(v) => r.num_records(*v),
            AerSet::MaxSections(v) => r.max_sections(*v),
            AerSet::DevCtl(v) => r.device_control(*v),
            AerSet::UncMask(v) => r.uncorrectable_error_mask(*v),
            AerSet::UncSev(v) => r.uncorrectable_error_severity(*v),
            AerSet::CorMask(v) => r.correctable_error_mask(*v),
            AerSet::AerCap(v) => r.aer_cap_ctrl(*v),
            _ => r,
        };
    }
    r
}
pub fn mk_aer_bridge(dev: &Option<(u8, Bdf)>, sets: &[AerSet]) -> hest::PcieAerBridge {
    let mut r = match dev {
        None => hest::PcieAerBridge::new_global(),
        Some((f, b)) => hest::PcieAerBridge::new_bridge(ff(*f), hest::PciDevice::new(b.bus, b.dev, b.func)),
    };
    for s in sets {
        r = match s {
            AerSet::NumRecords(v) => r.num_records(*v),
            AerSet::MaxSections(v) => r.max_sections(*v),
            AerSet::DevCtl(v) => r.device_control(*v),
            AerSet::UncMask(v) => r.uncorrectable_error_mask(*v),
            AerSet::UncSev(v) => r.uncorrectable_error_severity(*v),
            AerSet::CorMask(v) => r.correctable_error_mask(*v),
            AerSet::AerCap(v) => r.aer_cap_ctrl(*v),
            AerSet::SecUncMask(v) => r.secondary_uncorrectable_error_mask(*v),
            AerSet::SecUncSev(v) => r.secondary_uncorrectable_error_severity(*v),
            AerSet::SecAerCap(v) => r.secondary_aer_cap_ctrl(*v),
            _ => r,
        };
    }
    r
}

pub fn mk_notif_type(i: u8) -> hest::NotificationType {
    use hest::NotificationType as N;
    [
        N::Polled,
        N::ExternalIrq,
        N::LocalIrq,
        N::Sci,
        N::Nmi,
        N::Cmci,
        N::Mce,
        N::GpioSignal,
        N::Armv8Sea,
        N::Armv8Sei,
        N::ExternalGsiv,
        N::SoftwareException,
        N::RiscvSupervisorSoftwareEvent,
        N::RiscvLowPriorityRasInterrupt,
        N::RiscvHighPriorityRasInterrupt,
        N::RiscvHardwareErrorException,
    ][i as usize]
}

pub fn mk_notif(n: &Notif) -> hest::NotificationStructure {
    let mut s = hest::NotificationStructure::new(mk_notif_type(n.ty));
    if let Some(v) = n.conf_write_en {
        s = s.conf_write_en(v);
    }
    if let Some(v) = n.poll_interval {
        s = s.poll_interval_ms(v);
    }
    if let Some(v) = n.vector {
        s = s.vector(v);
    }
    if let Some(v) = n.pt_value {
        s = s.polling_threshold_value(v);
    }
    if let Some(v) = n.pt_window {
        s = s.polling_threshold_window_ms(v);
    }
    if let Some(v) = n.et_value {
        s = s.error_threshold_value(v);
    }
    if let Some(v) = n.et_window {
        s = s.error_threshold_window_ms(v);
    }
    s
}

fn en(i: u8) -> hest::EnabledStatus {
    if i == 0 {
        hest::EnabledStatus::Disabled
    } else {
        hest::EnabledStatus::Enabled
    }
}

pub fn mk_ghes(id: u16, enabled: u8, sets: &[GhesSet]) -> hest::GenericHardwareSource {
    let mut g = hest::GenericHardwareSource::new(id, en(enabled));
    for s in sets {
        g = match s {
            GhesSet::NumRecords(v) => g.num_records(*v),
            GhesSet::MaxSections(v) => g.max_sections(*v),
            GhesSet::MaxRaw(v) => g.max_raw_length(*v),
            GhesSet::StatusAddr(v) => g.error_status_address(mk_gas(v)),
            GhesSet::Notification(n) => g.notification(mk_notif(n)),
            GhesSet::BlockLen(v) => g.error_status_block_len(*v),
            _ => g,
        };
    }
    g
}
pub fn mk_ghes2(id: u16, enabled: u8, sets: &[GhesSet]) -> hest::GenericHardwareSourceV2 {
    let mut g = hest::GenericHardwareSourceV2::new(id, en(enabled));
    for s in sets {
        g = match s {
            GhesSet::NumRecords(v) => g.num_records(*v),
            GhesSet::MaxSections(v) => g.max_sections(*v),
            GhesSet::MaxRaw(v) => g.max_raw_length(*v),
            GhesSet::StatusAddr(v) => g.error_status_address(mk_gas(v)),
            GhesSet::Notification(n) => g.notification(mk_notif(n)),
            GhesSet::BlockLen(v) => g.error_status_block_len(*v),
            GhesSet::AckReg(v) => g.read_ack_register(mk_gas(v)),
            GhesSet::AckPreserve(v) => g.read_ack_preserve(*v),
            GhesSet::AckWrite(v) => g.read_ack_write(*v),
        };
    }
    g
}

pub fn mk_rqsc_ctl(ty: u8, reg: &GasV, rcid: u32, mcid: u32, flags: u16, res: &[RqscRes]) -> rqsc::QoSController {
    let build = || {
        let mut c = rqsc::QoSController::new(
            if ty == 0 { rqsc::ControllerType::Capacity } else { rqsc::ControllerType::Bandwidth },
            mk_gas(reg),
            rcid,
            mcid,
            flags,
        );
        for r in res {
            let id = match &r.id {
                RqscId::Cache(v) => rqsc::ResourceID::Cache(rqsc::CacheResource::new(*v)),
                RqscId::Mem(p, b) => rqsc::ResourceID::MemoryAffinityStructure(rqsc::MemoryAffinityStructureResource::new(*p, *b)),
                RqscId::Acpi(h, u) => rqsc::ResourceID::ACPIDevice(rqsc::ACPIDeviceResource::new(*h, *u)),
                RqscId::Pci(b) => rqsc::ResourceID::PCIDevice(rqsc::PCIDeviceResource::new(*b)),
                RqscId::Vendor(t, d) => rqsc::ResourceID::VendorSpecific(*t, d.clone()),
            };
            c.add_resource(rqsc::ResourceStructure::new(
                if r.ty == 0 { rqsc::ResourceType::Cache } else { rqsc::ResourceType::Memory },
                r.flags,
                id,
            ));
        }
        c
    };
    // A resource that cannot fit the controller's 16-bit length is refused and must leave the
    // controller as it was. The attempt is made on a twin of some controllers, so that every table
    // oracle sees an object that has refused something; the twin is judged only if it refused there
    // (a crate may also accept the call and refuse the oversize controller later).
    if rcid % 4 == 1 {
        let mut twin = build();
        let big = rqsc::ResourceStructure::new(rqsc::ResourceType::Memory, 7, rqsc::ResourceID::VendorSpecific(0x80, vec![0x5a; 65_500]));
        if catch_unwind(AssertUnwindSafe(|| twin.add_resource(big))).is_err() {
            return twin;
        }
    }
    build()
}

pub const FADT_FLAGS: [fadt::Flags; 25] = [
    fadt::Flags::Wbinvd,
    fadt::Flags::WbinvdFlush,
    fadt::Flags::ProcC1,
    fadt::Flags::PLvl2Up,
    fadt::Flags::PwrButton,
    fadt::Flags::SlpButton,
    fadt::Flags::FixRtc,
    fadt::Flags::RtcS4,
    fadt::Flags::TmrValExt,
    fadt::Flags::DckCap,
    fadt::Flags::ResetRegSup,
    fadt::Flags::SealedCase,
    fadt::Flags::Headless,
    fadt::Flags::CpuSwSlp,
    fadt::Flags::PciExpWak,
    fadt::Flags::UsePlatformClock,
    fadt::Flags::S4RtcStsValid,
    fadt::Flags::RemotePowerOnCapable,
    fadt::Flags::ForceApicClusterModel,
    fadt::Flags::ForceApicPhysicalDestinationMode,
    fadt::Flags::HwReducedAcpi,
    fadt::Flags::LowPowerS0IdleCapable,
    fadt::Flags::PersistentCpuCachesNotReported,
    fadt::Flags::PersistentCpuCachesNotPersistent,
    fadt::Flags::PersistentCpuCachesArePersistent,
];
pub const PM_PROFILES: [fadt::PmProfile; 9] = [
    fadt::PmProfile::Unspecified,
    fadt::PmProfile::Desktop,
    fadt::PmProfile::Mobile,
    fadt::PmProfile::Workstation,
    fadt::PmProfile::EnterpriseServer,
    fadt::PmProfile::SohoServer,
    fadt::PmProfile::AppliancePc,
    fadt::PmProfile::PerformanceServer,
    fadt::PmProfile::Tablet,
];

pub fn apply_fadt(b: fadt::FADTBuilder, s: &FadtSet) -> fadt::FADTBuilder {
    let mut b = b;
    match s {
        FadtSet::Dsdt32(v) => b.dsdt_32(*v),
        FadtSet::Dsdt64(v) => b.dsdt_64(*v),
        FadtSet::Fw32(v) => b.firmware_ctrl_32(*v),
        FadtSet::Fw64(v) => b.firmware_ctrl_64(*v),
        FadtSet::AcpiEnable => b.acpi_enable(),
        FadtSet::AcpiDisable => b.acpi_disable(),
        FadtSet::Flag(i) => b.flag(FADT_FLAGS[*i as usize]),
        FadtSet::GpeInfo(a, c, d, e, f) => b.gpe_info(*a, *c, *d, *e, *f),
        FadtSet::Profile(p) => b.preferred_pm_profile(PM_PROFILES[*p as usize]),
        FadtSet::Field(i, v) => {
            let v = *v;
            match i {
                0 => b.firmware_ctrl = (v as u32).into(),
                1 => b.dsdt = (v as u32).into(),
                2 => b.preferred_pm_profile = v as u8,
                3 => b.sci_int = (v as u16).into(),
                4 => b.smi_cmd = (v as u32).into(),
                5 => b.acpi_enable = v as u8,
                6 => b.acpi_disable = v as u8,
                7 => b.s4bios_req = v as u8,
                8 => b.pstate_cnt = v as u8,
                9 => b.pm1a_evt_blk = (v as u32).into(),
                10 => b.pm1b_evt_blk = (v as u32).into(),
                11 => b.pm1a_cnt_blk = (v as u32).into(),
                12 => b.pm1b_cnt_blk = (v as u32).into(),
                13 => b.pm2_cnt_blk = (v as u32).into(),
                14 => b.pm_tmr_blk = (v as u32).into(),
                15 => b.gpe0_blk = (v as u32).into(),
                16 => b.gpe1_blk = (v as u32).into(),
                17 => b.pm1_evt_len = v as u8,
                18 => b.pm1_cnt_len = v as u8,
                19 => b.pm2_cnt_len = v as u8,
                20 => b.pm_tmr_len = v as u8,
                21 => b.gpe0_blk_len = v as u8,
                22 => b.gpe1_blk_len = v as u8,
                23 => b.gpe1_base = v as u8,
                24 => b.cst_cnt = v as u8,
                25 => b.p_lvl2_lat = (v as u16).into(),
                26 => b.p_lvl3_lat = (v as u16).into(),
                27 => b.flush_size = (v as u16).into(),
                28 => b.flush_stride = (v as u16).into(),
                29 => b.duty_offset = v as u8,
                30 => b.duty_width = v as u8,
                31 => b.day_alrm = v as u8,
                32 => b.mon_alrm = v as u8,
                33 => b.century = v as u8,
                34 => b.iapc_boot_arch = (v as u16).into(),
                35 => b.flags = (v as u32).into(),
                36 => b.reset_value = v as u8,
                37 => b.arm_boot_arch = (v as u16).into(),
                38 => b.fadt_minor_version = v as u8,
                39 => b.x_firmware_ctrl = v.into(),
                40 => b.x_dsdt = v.into(),
                41 => b.hypervisor_vendor_identity = v.into(),
                // the pub checksum field: whatever the caller leaves there, finalize() recomputes it
                42 => b.checksum = v as u8,
                // the pub Length field of the header: a caller who overwrites it owns the consequences
                // for C02, but the checksum must still cover everything that is emitted (C01)
                _ => b.length = (v as u32).into(),
            }
            b
        }
        FadtSet::FieldGas(i, g) => {
            let g = mk_gas(g);
            match i {
                0 => b.reset_reg = g,
                1 => b.x_pm1a_evt_blk = g,
                2 => b.x_pm1b_evt_blk = g,
                3 => b.x_pm1a_cnt_blk = g,
                4 => b.x_pm1b_cnt_blk = g,
                5 => b.x_pm2_cnt_blk = g,
                6 => b.x_pm_tmr_blk = g,
                7 => b.x_gpe0_blk = g,
                8 => b.x_gpe1_blk = g,
                9 => b.sleep_control_reg = g,
                _ => b.sleep_status_reg = g,
            }
            b
        }
    }
}

pub fn apply_tcpa(t: tpm2::TpmServer1_2, s: &TcpaSet) -> tpm2::TpmServer1_2 {
    match s {
        TcpaSet::LogArea(a, b) => t.log_area(*a, *b),
        TcpaSet::ActiveLow => t.active_low(),
        TcpaSet::Edge => t.edge_triggered(),
        TcpaSet::SciGpe(v) => t.sci_gpe(*v),
        TcpaSet::Gsi(v) => t.gsi(*v),
        TcpaSet::Pnp => t.bus_is_pnp(),
        TcpaSet::Sbdf(a, b, c, d) => t.pci_sbdf(*a, *b, *c, *d),
        TcpaSet::Base(g) => t.base_addr(mk_gas(g)),
        TcpaSet::Config(g) => t.config_addr(mk_gas(g)),
    }
}

pub fn apply_sdt(t: &mut sdt::Sdt, o: &SdtOp) {
    match o {
        SdtOp::AppendU8(v) => t.append(*v),
        SdtOp::AppendU16(v) => t.append(*v),
        SdtOp::AppendU32(v) => t.append(*v),
        SdtOp::AppendU64(v) => t.append(*v),
        SdtOp::AppendSlice(v) => t.append_slice(v),
        SdtOp::WriteU8(o, v) => t.write_u8(*o as usize, *v),
        SdtOp::WriteU16(o, v) => t.write_u16(*o as usize, *v),
        SdtOp::WriteU32(o, v) => t.write_u32(*o as usize, *v),
        SdtOp::WriteU64(o, v) => t.write_u64(*o as usize, *v),
        SdtOp::WriteSlice(o, v) => t.write_bytes(*o as usize, v),
        SdtOp::SinkByte(v) => AmlSink::byte(t, *v),
        SdtOp::SinkWord(v) => AmlSink::word(t, *v),
        SdtOp::SinkDword(v) => AmlSink::dword(t, *v),
        SdtOp::SinkQword(v) => AmlSink::qword(t, *v),
        SdtOp::SinkVec(v) => AmlSink::vec(t, v),
        SdtOp::UpdateChecksum => t.update_checksum(),
    }
}

impl Live {
    /// a refused add returns no handle: keep the handle numbering of the program
    fn handle_lost(&mut self, op: &Op) {
        match (self, op) {
            (Live::Pptt(_, c, _), Op::PpttCache { .. }) => c.push(None),
            (Live::Pptt(_, _, p), Op::PpttProc { .. }) => p.push(None),
            (Live::Rhct(_, i, _), Op::RhctIsa(..)) => i.push(None),
            (Live::Rhct(_, _, c), Op::RhctCmo(..)) => c.push(None),
            (Live::Rimt(_, i), Op::RimtIommu { .. }) => i.push(None),
            (Live::Viot(_, h), Op::ViotPciIommu(..)) | (Live::Viot(_, h), Op::ViotMmioIommu(..)) => h.push(None),
            _ => {}
        }
    }
    fn handle_count(&self, op: &Op) -> usize {
        match (self, op) {
            (Live::Pptt(_, c, _), Op::PpttCache { .. }) => c.len(),
            (Live::Pptt(_, _, p), Op::PpttProc { .. }) => p.len(),
            (Live::Rhct(_, i, _), Op::RhctIsa(..)) => i.len(),
            (Live::Rhct(_, _, c), Op::RhctCmo(..)) => c.len(),
            (Live::Rimt(_, i), Op::RimtIommu { .. }) => i.len(),
            (Live::Viot(_, h), Op::ViotPciIommu(..)) | (Live::Viot(_, h), Op::ViotMmioIommu(..)) => h.len(),
            _ => 0,
        }
    }
    fn image(&self) -> Vec<u8> {
        match self {
            Live::Xsdt(t) => ser(t),
            Live::Mcfg(t) => ser(t),
            Live::Madt(t) => ser(t),
            Live::Srat(t) => ser(t),
            Live::Slit(t) => ser(t),
            Live::Hmat(t) => ser(t),
            Live::Pptt(t, ..) => ser(t),
            Live::Rhct(t, ..) => ser(t),
            Live::Rimt(t, ..) => ser(t),
            Live::Viot(t, ..) => ser(t),
            Live::Cedt(t) => ser(t),
            Live::Hest(t) => ser(t),
            Live::Rqsc(t) => ser(t),
            Live::Tpm2(t) => ser(t),
            Live::TcpaClient(t) => ser(t),
            Live::TcpaServer(t) => ser(t),
            Live::Fadt(b) => ser(&b.finalize()),
            Live::Bert(t) => ser(t),
            Live::Spcr(t) => ser(t),
            Live::Sdt(t) => ser(t),
            Live::Rsdp(t) => ser(t),
            Live::Facs(t) => ser(t),
        }
    }

    fn apply(&mut self, op: &Op, idx: usize, hs: &mut Vec<HandleRec>) {
        match (self, op) {
            (Live::Xsdt(t), Op::XsdtEntry(v)) => t.add_entry(*v),
            (Live::Mcfg(t), Op::Ecam(a, b, c, d)) => t.add_ecam(*a, *b, *c, *d),
            (Live::Madt(t), op) => match op {
                Op::Lapic(u, a, s) => t.add_structure(madt::ProcessorLocalApic::new(*u, *a, mk_lapic_status(*s))),
                Op::IoApic(i, a, g) => t.add_structure(madt::IoApic::new(*i, *a, *g)),
                Op::Gicc { status, sets } => t.add_structure(mk_gicc(*status, sets)),
                Op::Gicd(i, b, v) => t.add_structure(madt::Gicd::new(*i, *b, mk_gicver(*v))),
                Op::GicMsi { frame, base, spi } => t.add_structure(mk_gicmsi(frame, base, spi)),
                Op::Gicr(b, l) => t.add_structure(madt::Gicr::new(*b, *l)),
                Op::Its(i, b) => t.add_structure(madt::GicIts::new(*i, *b)),
                Op::Rintc { status, hart, uid, ext, imsic_base, imsic_size } => {
                    t.add_structure(madt::RINTC::new(mk_hart_status(*status), *hart, *uid, *ext, *imsic_base, *imsic_size))
                }
                Op::Imsic { via_add_imsic, s, g, gib, hib, grib, gris } => {
                    let i = madt::IMSIC::new(*s, *g, *gib, *hib, *grib, *gris);
                    if *via_add_imsic {
                        t.add_imsic(i)
                    } else {
                        t.add_structure(i)
                    }
                }
                Op::Aplic { id, hw, idcs, gsi, addr, size, srcs } => t.add_structure(madt::APLIC::new(*id, *hw, *idcs, *gsi, *addr, *size, *srcs)),
                Op::Plic { id, hw, srcs, prio, size, addr, gsi } => t.add_structure(madt::PLIC::new(*id, *hw, *srcs, *prio, *size, *addr, *gsi)),
                o => panic!("harness: op {:?} on MADT", o),
            },
            (Live::Srat(t), Op::SratMem { pd, base, len, flags }) => t.add_memory_affinity(mk_srat_mem(*pd, *base, *len, flags)),
            (Live::Srat(t), Op::SratGi { pd, acpi, pci, flags }) => t.add_generic_initiator(mk_srat_gi(*pd, acpi, pci, flags)),
            (Live::Srat(t), Op::SratRintc { uid, clock, pd, enabled }) => t.add_rintc_affinity(mk_srat_rintc(*uid, *clock, pd, *enabled)),
            (Live::Slit(t), Op::SlitSet(a, b, v)) => t.set_distance(*a as usize, *b as usize, *v),
            (Live::Hmat(t), Op::HmatProx(a, b)) => t.add_memory_proximity(hmat::MemoryProximityDomain::new(*a, *b)),
            (Live::Hmat(t), Op::HmatSllbi { loc, dt, mts, unit, ni, nt, ops }) => t.add_system_locality(mk_sllbi(*loc, *dt, *mts, *unit, *ni, *nt, ops)),
            (Live::Hmat(t), Op::HmatCache { pd, size, total, level, assoc, policy, line, handles }) => {
                t.add_memory_side_cache(mk_side_cache(*pd, *size, *total, *level, *assoc, *policy, *line, handles))
            }
            (Live::Pptt(t, caches, _), Op::PpttCache { sets }) => {
                let n = mk_cache_node(sets, caches);
                let h = t.add_cache(n);
                hs.push(HandleRec { kind: HKind::Cache, value: cache_handle_value(&h), op: idx });
                caches.push(Some(h));
            }
            (Live::Pptt(t, caches, procs), Op::PpttProc { parent, id, flags, res, raw_flags }) => {
                let n = mk_proc_node(parent, *id, flags, res, raw_flags, caches, procs);
                let h = t.add_processor(n);
                hs.push(HandleRec { kind: HKind::Proc, value: proc_handle_value(&h), op: idx });
                procs.push(Some(h));
            }
            (Live::Rhct(t, isas, _), Op::RhctIsa(len)) => {
                let h = t.add_isa_string(static_text(*len as usize));
                hs.push(HandleRec { kind: HKind::Isa, value: isa_handle_value(&h), op: idx });
                isas.push(Some(h));
            }
            (Live::Rhct(t, ..), Op::RhctMmu(s)) => t.add_mmu_node(match s {
                0 => rhct::VirtualAddressScheme::Sv39,
                1 => rhct::VirtualAddressScheme::Sv48,
                _ => rhct::VirtualAddressScheme::Sv57,
            }),
            (Live::Rhct(t, _, cmos), Op::RhctCmo(a, b, c)) => {
                let h = t.add_cmo(rhct::CmoNode::new(*a, *b, *c));
                hs.push(HandleRec { kind: HKind::Cmo, value: cmo_handle_value(&h), op: idx });
                cmos.push(Some(h));
            }
            (Live::Rhct(t, isas, cmos), Op::RhctHart { uid, isa, cmos: cs }) => {
                let mut n = rhct::HartInfoNode::new(*uid, isas[*isa as usize].as_ref().expect("handle of a refused add"));
                for c in cs {
                    n = n.with_cmo(cmos[*c as usize].as_ref().expect("handle of a refused add"));
                }
                t.add_hart_info(n);
            }
            (Live::Rimt(t, iommus), Op::RimtIommu { id, base, pci, prox, wires }) => {
                let w = wires.as_ref().map(|v| v.iter().map(|(n, l, p, a)| rimt::InterruptWire::new(*n, *l, *p, *a)).collect());
                let io = rimt::Iommu::new(*id, *base, pci.map(|b| rimt::PciDevice::new(b.seg, b.bus, b.dev, b.func)), *prox, w);
                let h = t.add_iommu(io);
                hs.push(HandleRec { kind: HKind::Iommu, value: iommu_offset_value(h), op: idx });
                iommus.push(Some(h));
            }
            (Live::Rimt(t, iommus), Op::RimtRc { id, seg, ats, pri, maps }) => {
                t.add_pcie_root_complex(rimt::PcieRootComplex::new(*id, *seg, *ats, *pri, mk_idmaps(maps, iommus)))
            }
            (Live::Rimt(t, iommus), Op::RimtPlat { id, name_len, maps }) => {
                t.add_platform(rimt::Platform::new(*id, text_of(*name_len as usize), mk_idmaps(maps, iommus)))
            }
            (Live::Viot(t, hv), Op::ViotPciIommu(b)) => {
                let h = t.add_virtio_pci_iommu(viot::VirtIoPciIommu::new(viot::PciDevice::new(b.seg, b.bus, b.dev, b.func)));
                hs.push(HandleRec { kind: HKind::Viot, value: viot_handle_value(&h), op: idx });
                hv.push(Some(h));
            }
            (Live::Viot(t, hv), Op::ViotMmioIommu(b)) => {
                let h = t.add_virtio_mmio_iommu(viot::VirtIoMmioIommu::new(*b));
                hs.push(HandleRec { kind: HKind::Viot, value: viot_handle_value(&h), op: idx });
                hv.push(Some(h));
            }
            (Live::Viot(t, hv), Op::ViotPciRange { first, last, h }) => t.add_pci_range(viot::PciRange::new(
                viot::PciDevice::new(first.seg, first.bus, first.dev, first.func),
                viot::PciDevice::new(last.seg, last.bus, last.dev, last.func),
                hv[*h as usize].as_ref().expect("handle of a refused add"),
            )),
            (Live::Viot(t, hv), Op::ViotMmioEp { id, base, h }) => t.add_mmio_endpoint(viot::MmioEndpoint::new(*id, *base, hv[*h as usize].as_ref().expect("handle of a refused add"))),
            (Live::Cedt(t), Op::Chbs(u, v, b)) => {
                t.add_host_bridge(cedt::CxlHostBridge::new(*u, if *v == 0 { cedt::CxlVersion::Cxl1_1 } else { cedt::CxlVersion::Cxl2 }, *b))
            }
            (Live::Cedt(t), Op::Cfmws { base, size, arith, gran, ways, qtg, restr, targets }) => {
                t.add_fixed_memory(mk_cfmws(*base, *size, *arith, *gran, *ways, *qtg, restr, targets))
            }
            (Live::Cedt(t), Op::Cxims { gran, maps }) => {
                let build = || {
                    let mut x = cedt::XorInterleaveMath::new(mk_gran(*gran));
                    for m in maps {
                        x.add_xormap(*m);
                    }
                    x
                };
                let mut x = build();
                if maps.len() == 255 {
                    // the 256th map is refused (C18) and must leave the structure as it was; attempted
                    // on a twin, judged only if it refused there (see mk_side_cache)
                    let mut twin = build();
                    if catch_unwind(AssertUnwindSafe(|| twin.add_xormap(0x7777))).is_err() {
                        x = twin;
                    }
                }
                t.add_xor_interleave_math(x)
            }
            (Live::Cedt(t), Op::Rdpas { bdf, proto, base }) => t.add_port_association(cedt::PortAssociation::new(
                bdf.seg,
                bdf.bus,
                bdf.dev,
                bdf.func,
                if *proto == 0 { cedt::ProtocolType::CxlIo } else { cedt::ProtocolType::CxlMem },
                *base,
            )),
            (Live::Hest(t), Op::AerRoot { dev, sets }) => t.add_structure(mk_aer_root(dev, sets)),
            (Live::Hest(t), Op::AerDev { dev, sets }) => t.add_structure(mk_aer_dev(dev, sets)),
            (Live::Hest(t), Op::AerBridge { dev, sets }) => t.add_structure(mk_aer_bridge(dev, sets)),
            (Live::Hest(t), Op::Ghes { v2, id, enabled, sets }) => {
                if *v2 {
                    t.add_structure(mk_ghes2(*id, *enabled, sets))
                } else {
                    t.add_structure(mk_ghes(*id, *enabled, sets))
                }
            }
            (Live::Rqsc(t), Op::RqscCtl { ty, reg, rcid, mcid, flags, res }) => t.add_controller(mk_rqsc_ctl(*ty, reg, *rcid, *mcid, *flags, res)),
            (Live::Tpm2(t), Op::Tpm2Log(a, b)) => t.set_log_area(*a, *b),
            (Live::TcpaServer(t), Op::Tcpa(s)) => *t = apply_tcpa(*t, s),
            (Live::Fadt(b), Op::Fadt(s)) => *b = apply_fadt(*b, s),
            (Live::Facs(f), Op::FacsField(i, v)) => match i {
                0 => f.hardware_signature = (*v as u32).into(),
                1 => f.waking = (*v as u32).into(),
                2 => f.lock = (*v as u32).into(),
                3 => f.flags = (*v as u32).into(),
                4 => f.x_waking = (*v).into(),
                5 => f.version = *v as u8,
                _ => f.ospm_flags = (*v as u32).into(),
            },
            (Live::Sdt(t), Op::Sdt(o)) => apply_sdt(t, o),
            (_, o) => panic!("harness: op {:?} does not fit the table", o),
        }
    }
}

/// what the oracles see after the constructor (step 0) and after `step` ops
pub struct Obs<'a> {
    pub step: usize,
    pub image: &'a [u8],
    /// the op just applied panicked (was refused)
    pub refused: bool,
    pub handles: &'a [HandleRec],
    /// Sdt only: as_slice(), len(), is_empty()
    pub sdt_view: Option<(Vec<u8>, usize, bool)>,
}

/// which prefixes to observe (DESIGN 3.2 prefix policy): every prefix for
/// histories up to 2000 ops, windows around count carries otherwise
pub fn observe_step(step: usize, total: usize) -> bool {
    if total <= 2000 || step <= 8 || step + 2 >= total {
        return true;
    }
    let m = step % 256;
    if m <= 2 || m >= 254 {
        return true;
    }
    if (65533..=65539).contains(&step) {
        return true;
    }
    step % 97 == 0
}

pub struct DriveResult {
    /// construction itself panicked
    pub ctor_refused: bool,
    pub refused_ops: Vec<usize>,
}

pub fn drive(p: &Program, flat: &[Op], obs: &mut dyn FnMut(&Obs)) -> DriveResult {
    drive_with(p, flat, &observe_step, obs)
}

/// Build the table for `p`, apply `flat`, and call `obs` after the constructor
/// and after every prefix selected by `policy(step, total)` (refused ops are
/// always observed).
pub fn drive_with(p: &Program, flat: &[Op], policy: &dyn Fn(usize, usize) -> bool, obs: &mut dyn FnMut(&Obs)) -> DriveResult {
    let mut res = DriveResult { ctor_refused: false, refused_ops: vec![] };
    let live = catch_unwind(AssertUnwindSafe(|| construct(p)));
    let Ok(mut live) = live else {
        res.ctor_refused = true;
        return res;
    };
    let mut handles: Vec<HandleRec> = Vec::new();
    let total = flat.len();
    {
        let img = live.image();
        let view = sdt_view(&live);
        obs(&Obs { step: 0, image: &img, refused: false, handles: &handles, sdt_view: view });
    }
    for (i, op) in flat.iter().enumerate() {
        let before = live.handle_count(op);
        let r = catch_unwind(AssertUnwindSafe(|| live.apply(op, i, &mut handles)));
        let refused = r.is_err();
        if refused {
            res.refused_ops.push(i);
            if live.handle_count(op) == before {
                live.handle_lost(op);
            }
        }
        let step = i + 1;
        if refused || policy(step, total) {
            let img = live.image();
            let view = sdt_view(&live);
            obs(&Obs { step, image: &img, refused, handles: &handles, sdt_view: view });
        }
    }
    res
}

fn sdt_view(l: &Live) -> Option<(Vec<u8>, usize, bool)> {
    match l {
        Live::Sdt(t) => Some((t.as_slice().to_vec(), t.len(), t.is_empty())),
        _ => None,
    }
}

/// Build the table of `p` with all (accepted) ops applied and lend it as `&dyn Aml`.
/// Returns false if construction was refused.
pub fn with_table(p: &Program, flat: &[Op], k: &mut dyn FnMut(&dyn Aml)) -> bool {
    let Ok(mut live) = catch_unwind(AssertUnwindSafe(|| construct(p))) else { return false };
    let mut hs = Vec::new();
    for (i, op) in flat.iter().enumerate() {
        let before = live.handle_count(op);
        if catch_unwind(AssertUnwindSafe(|| live.apply(op, i, &mut hs))).is_err() && live.handle_count(op) == before {
            live.handle_lost(op);
        }
    }
    match &live {
        Live::Xsdt(t) => k(t),
        Live::Mcfg(t) => k(t),
        Live::Madt(t) => k(t),
        Live::Srat(t) => k(t),
        Live::Slit(t) => k(t),
        Live::Hmat(t) => k(t),
        Live::Pptt(t, ..) => k(t),
        Live::Rhct(t, ..) => k(t),
        Live::Rimt(t, ..) => k(t),
        Live::Viot(t, ..) => k(t),
        Live::Cedt(t) => k(t),
        Live::Hest(t) => k(t),
        Live::Rqsc(t) => k(t),
        Live::Tpm2(t) => k(t),
        Live::TcpaClient(t) => k(t),
        Live::TcpaServer(t) => k(t),
        Live::Fadt(b) => k(&b.finalize()),
        Live::Bert(t) => k(t),
        Live::Spcr(t) => k(t),
        Live::Sdt(t) => k(t),
        Live::Rsdp(t) => k(t),
        Live::Facs(t) => k(t),
    }
    true
}

/// The entry object an op would add, on its own, with its raw in-memory form
/// where the type can be added to a table through `as_bytes()`. Ops whose entry
/// needs handles from a table are lent without their references.
pub fn with_entry(op: &Op, k: &mut dyn FnMut(&'static str, &dyn Aml, Option<&[u8]>)) {
    use zerocopy::IntoBytes;
    macro_rules! raw {
        ($name:expr, $e:expr) => {{
            let x = $e;
            k($name, &x, Some(x.as_bytes()))
        }};
    }
    macro_rules! plain {
        ($name:expr, $e:expr) => {{
            let x = $e;
            k($name, &x, None)
        }};
    }
    match op {
        Op::Lapic(u, a, s) => raw!("madt::ProcessorLocalApic", madt::ProcessorLocalApic::new(*u, *a, mk_lapic_status(*s))),
        Op::IoApic(i, a, g) => raw!("madt::IoApic", madt::IoApic::new(*i, *a, *g)),
        Op::Gicc { status, sets } => raw!("madt::Gicc", mk_gicc(*status, sets)),
        Op::Gicd(i, b, v) => raw!("madt::Gicd", madt::Gicd::new(*i, *b, mk_gicver(*v))),
        Op::GicMsi { frame, base, spi } => raw!("madt::GicMsi", mk_gicmsi(frame, base, spi)),
        Op::Gicr(b, l) => raw!("madt::Gicr", madt::Gicr::new(*b, *l)),
        Op::Its(i, b) => raw!("madt::GicIts", madt::GicIts::new(*i, *b)),
        Op::Rintc { status, hart, uid, ext, imsic_base, imsic_size } => raw!("madt::RINTC", madt::RINTC::new(mk_hart_status(*status), *hart, *uid, *ext, *imsic_base, *imsic_size)),
        Op::Imsic { s, g, gib, hib, grib, gris, .. } => raw!("madt::IMSIC", madt::IMSIC::new(*s, *g, *gib, *hib, *grib, *gris)),
        Op::Aplic { id, hw, idcs, gsi, addr, size, srcs } => raw!("madt::APLIC", madt::APLIC::new(*id, *hw, *idcs, *gsi, *addr, *size, *srcs)),
        Op::Plic { id, hw, srcs, prio, size, addr, gsi } => raw!("madt::PLIC", madt::PLIC::new(*id, *hw, *srcs, *prio, *size, *addr, *gsi)),
        Op::SratMem { pd, base, len, flags } => plain!("srat::MemoryAffinity", mk_srat_mem(*pd, *base, *len, flags)),
        Op::SratGi { pd, acpi, pci, flags } => plain!("srat::GenericInitiator", mk_srat_gi(*pd, acpi, pci, flags)),
        Op::SratRintc { uid, clock, pd, enabled } => raw!("srat::RintcAffinity", mk_srat_rintc(*uid, *clock, pd, *enabled)),
        Op::HmatProx(a, b) => raw!("hmat::MemoryProximityDomain", hmat::MemoryProximityDomain::new(*a, *b)),
        Op::HmatSllbi { loc, dt, mts, unit, ni, nt, ops } => plain!("hmat::SystemLocality", mk_sllbi(*loc, *dt, *mts, *unit, *ni, *nt, ops)),
        Op::HmatCache { pd, size, total, level, assoc, policy, line, handles } => plain!("hmat::MemorySideCache", mk_side_cache(*pd, *size, *total, *level, *assoc, *policy, *line, handles)),
        Op::PpttCache { sets } => {
            let s: Vec<CacheSet> = sets.iter().filter(|s| !matches!(s, CacheSet::Next(_))).cloned().collect();
            raw!("pptt::CacheNode", mk_cache_node(&s, &[]))
        }
        Op::PpttProc { id, flags, raw_flags, .. } => plain!("pptt::ProcessorNode", mk_proc_node(&None, *id, flags, &[], raw_flags, &[], &[])),
        Op::RhctIsa(n) => plain!("rhct::IsaStringNode", rhct::IsaStringNode::new(static_text(*n as usize))),
        Op::RhctMmu(s) => plain!(
            "rhct::MmuNode",
            rhct::MmuNode::new(match s {
                0 => rhct::VirtualAddressScheme::Sv39,
                1 => rhct::VirtualAddressScheme::Sv48,
                _ => rhct::VirtualAddressScheme::Sv57,
            })
        ),
        Op::RhctCmo(a, b, c) => plain!("rhct::CmoNode", rhct::CmoNode::new(*a, *b, *c)),
        Op::RimtIommu { id, base, pci, prox, wires } => {
            let w = wires.as_ref().map(|v| v.iter().map(|(n, l, p, a)| rimt::InterruptWire::new(*n, *l, *p, *a)).collect());
            plain!("rimt::Iommu", rimt::Iommu::new(*id, *base, pci.map(|b| rimt::PciDevice::new(b.seg, b.bus, b.dev, b.func)), *prox, w))
        }
        Op::RimtRc { id, seg, ats, pri, .. } => plain!("rimt::PcieRootComplex", rimt::PcieRootComplex::new(*id, *seg, *ats, *pri, None)),
        Op::RimtPlat { id, name_len, .. } => plain!("rimt::Platform", rimt::Platform::new(*id, text_of(*name_len as usize), None)),
        Op::ViotPciIommu(b) => plain!("viot::VirtIoPciIommu", viot::VirtIoPciIommu::new(viot::PciDevice::new(b.seg, b.bus, b.dev, b.func))),
        Op::ViotMmioIommu(b) => plain!("viot::VirtIoMmioIommu", viot::VirtIoMmioIommu::new(*b)),
        Op::Chbs(u, v, b) => plain!("cedt::CxlHostBridge", cedt::CxlHostBridge::new(*u, if *v == 0 { cedt::CxlVersion::Cxl1_1 } else { cedt::CxlVersion::Cxl2 }, *b)),
        Op::Cfmws { base, size, arith, gran, ways, qtg, restr, targets } => {
            if targets.len() as u32 == super::gen::WAYS_COUNT[*ways as usize] {
                plain!("cedt::CxlFixedMemory", mk_cfmws(*base, *size, *arith, *gran, *ways, *qtg, restr, targets))
            }
        }
        Op::Cxims { gran, maps } => {
            let mut x = cedt::XorInterleaveMath::new(mk_gran(*gran));
            for m in maps {
                x.add_xormap(*m);
            }
            plain!("cedt::XorInterleaveMath", x)
        }
        Op::Rdpas { bdf, proto, base } => plain!(
            "cedt::PortAssociation",
            cedt::PortAssociation::new(bdf.seg, bdf.bus, bdf.dev, bdf.func, if *proto == 0 { cedt::ProtocolType::CxlIo } else { cedt::ProtocolType::CxlMem }, *base)
        ),
        Op::AerRoot { dev, sets } => raw!("hest::PcieAerRootPort", mk_aer_root(dev, sets)),
        Op::AerDev { dev, sets } => raw!("hest::PcieAerDevice", mk_aer_dev(dev, sets)),
        Op::AerBridge { dev, sets } => raw!("hest::PcieAerBridge", mk_aer_bridge(dev, sets)),
        Op::Ghes { v2, id, enabled, sets } => {
            if *v2 {
                raw!("hest::GenericHardwareSourceV2", mk_ghes2(*id, *enabled, sets))
            } else {
                raw!("hest::GenericHardwareSource", mk_ghes(*id, *enabled, sets))
            }
            for s in sets {
                match s {
                    GhesSet::Notification(n) => raw!("hest::NotificationStructure", mk_notif(n)),
                    GhesSet::StatusAddr(g) | GhesSet::AckReg(g) => raw!("gas::GAS", mk_gas(g)),
                    _ => {}
                }
            }
        }
        Op::RqscCtl { ty, reg, rcid, mcid, flags, res } => {
            plain!("rqsc::QoSController", mk_rqsc_ctl(*ty, reg, *rcid, *mcid, *flags, res));
            raw!("gas::GAS", mk_gas(reg));
            for r in res {
                match &r.id {
                    RqscId::Cache(v) => raw!("rqsc::CacheResource", rqsc::CacheResource::new(*v)),
                    RqscId::Mem(a, b) => raw!("rqsc::MemoryAffinityStructureResource", rqsc::MemoryAffinityStructureResource::new(*a, *b)),
                    RqscId::Acpi(a, b) => raw!("rqsc::ACPIDeviceResource", rqsc::ACPIDeviceResource::new(*a, *b)),
                    RqscId::Pci(a) => raw!("rqsc::PCIDeviceResource", rqsc::PCIDeviceResource::new(*a)),
                    _ => {}
                }
            }
        }
        Op::Repeat(o, _) => with_entry(o, k),
        _ => {}
    }
}

/// whole tables that are themselves plain in-memory structures
pub fn with_raw_table(p: &Program, k: &mut dyn FnMut(&'static str, &dyn Aml, &[u8])) {
    use zerocopy::IntoBytes;
    let h = &p.hdr;
    match (&p.kind, &p.ctor) {
        (Kind::Bert, Ctor::Bert { len, base }) => {
            let t = acpi_tables::bert::BERT::new(h.oem_id, h.oem_table_id, h.oem_rev, *len, *base);
            k("bert::BERT", &t, t.as_bytes())
        }
        (Kind::Rsdp, Ctor::Rsdp { xsdt }) => {
            let t = rsdp::Rsdp::new(h.oem_id, *xsdt);
            k("rsdp::Rsdp", &t, t.as_bytes())
        }
        (Kind::Facs, _) => {
            let t = facs::FACS::new();
            k("facs::FACS", &t, t.as_bytes())
        }
        (Kind::TcpaServer, _) => {
            let mut t = tpm2::TpmServer1_2::new(h.oem_id, h.oem_table_id, h.oem_rev);
            for o in &p.ops {
                if let Op::Tcpa(s) = o {
                    t = apply_tcpa(t, s);
                }
            }
            k("tpm2::TpmServer1_2", &t, t.as_bytes())
        }
        _ => {}
    }
}
