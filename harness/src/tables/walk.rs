//! Body walkers: step through a table image by the specification's framing
//! rules only (first-entry offset, sub-header format, the specification's size
//! for fixed-size types, nested framing for variable entries). Nothing here
//! calls into the crate or the reference encoder.

use super::types::*;

#[derive(Clone, Debug, PartialEq, Eq)]
pub struct WEntry {
    pub offset: usize,
    pub ty: u32,
    pub len: usize,
    /// nested counts in a fixed order per type (see `expected_entry`)
    pub subs: Vec<u32>,
}

#[derive(Clone, Debug)]
pub struct WalkIssue {
    /// stable kind + detail (signature material)
    pub kind: &'static str,
    pub subject: String,
    pub detail: String,
    pub info: String,
}

pub struct Walk {
    pub entries: Vec<WEntry>,
    pub issues: Vec<WalkIssue>,
    /// summarising header fields found: (name, value)
    pub summary: Vec<(&'static str, u64)>,
}

#[allow(dead_code)]
fn r8(b: &[u8], o: usize) -> Option<u64> {
    b.get(o).map(|x| *x as u64)
}
fn r16(b: &[u8], o: usize) -> Option<u64> {
    Some(u16::from_le_bytes([*b.get(o)?, *b.get(o + 1)?]) as u64)
}
fn r32(b: &[u8], o: usize) -> Option<u64> {
    let s = b.get(o..o + 4)?;
    Some(u32::from_le_bytes([s[0], s[1], s[2], s[3]]) as u64)
}

fn issue(w: &mut Walk, kind: &'static str, subject: String, detail: String, info: String) {
    if w.issues.len() < 6 {
        w.issues.push(WalkIssue { kind, subject, detail, info });
    }
}

pub fn type_name(k: Kind, ty: u32) -> String {
    let n = match (k, ty) {
        (Kind::Madt, 0) => "lapic",
        (Kind::Madt, 1) => "ioapic",
        (Kind::Madt, 0xb) => "gicc",
        (Kind::Madt, 0xc) => "gicd",
        (Kind::Madt, 0xd) => "gicmsi",
        (Kind::Madt, 0xe) => "gicr",
        (Kind::Madt, 0xf) => "its",
        (Kind::Madt, 0x18) => "rintc",
        (Kind::Madt, 0x19) => "imsic",
        (Kind::Madt, 0x1a) => "aplic",
        (Kind::Madt, 0x1b) => "plic",
        (Kind::Srat, 1) => "memory",
        (Kind::Srat, 5) => "generic-initiator",
        (Kind::Srat, 7) => "rintc-affinity",
        (Kind::Hmat, 0) => "proximity",
        (Kind::Hmat, 1) => "sllbi",
        (Kind::Hmat, 2) => "side-cache",
        (Kind::Pptt, 0) => "processor",
        (Kind::Pptt, 1) => "cache",
        (Kind::Rhct, 0) => "isa",
        (Kind::Rhct, 1) => "cmo",
        (Kind::Rhct, 2) => "mmu",
        (Kind::Rhct, 0xffff) => "hart-info",
        (Kind::Rimt, 0) => "iommu",
        (Kind::Rimt, 1) => "root-complex",
        (Kind::Rimt, 2) => "platform",
        (Kind::Viot, 1) => "pci-range",
        (Kind::Viot, 2) => "mmio-endpoint",
        (Kind::Viot, 3) => "pci-iommu",
        (Kind::Viot, 4) => "mmio-iommu",
        (Kind::Cedt, 0) => "CHBS",
        (Kind::Cedt, 1) => "CFMWS",
        (Kind::Cedt, 2) => "CXIMS",
        (Kind::Cedt, 3) => "RDPAS",
        (Kind::Hest, 6) => "aer-root-port",
        (Kind::Hest, 7) => "aer-device",
        (Kind::Hest, 8) => "aer-bridge",
        (Kind::Hest, 9) => "generic",
        (Kind::Hest, 10) => "generic-v2",
        (Kind::Rqsc, _) => "controller",
        (Kind::Mcfg, _) => "ecam",
        (Kind::Xsdt, _) => "entry",
        _ => return format!("type-{:#x}", ty),
    };
    n.to_string()
}

fn eniw_ways(e: u64) -> Option<usize> {
    // CXL 3.0 Table 9-22: ENIW 0..4 -> 1,2,4,8,16; 8,9,10 -> 3,6,12
    Some(match e {
        0 => 1,
        1 => 2,
        2 => 4,
        3 => 8,
        4 => 16,
        8 => 3,
        9 => 6,
        10 => 12,
        _ => return None,
    })
}

/// Walk the body of `img`. Framing problems become issues; the walk re-syncs
/// where the specification gives the size independently of the length field.
pub fn walk(k: Kind, img: &[u8]) -> Walk {
    let mut w = Walk { entries: vec![], issues: vec![], summary: vec![] };
    let name = k.name();
    let first = super::refenc::first_entry_offset(k);
    if img.len() < first {
        issue(&mut w, "walk", name.into(), "image shorter than the fixed part".into(), format!("len={}", img.len()));
        return w;
    }
    // in-table offset fields must name the same first-entry offset
    match k {
        Kind::Rhct => {
            w.summary.push(("node-count", r32(img, 48).unwrap()));
            if r32(img, 52) != Some(56) {
                issue(&mut w, "count-field", name.into(), "node-array-offset != 56".into(), format!("found={:?}", r32(img, 52)));
            }
        }
        Kind::Rimt => {
            w.summary.push(("device-count", r32(img, 36).unwrap()));
            if r32(img, 40) != Some(48) {
                issue(&mut w, "count-field", name.into(), "device-array-offset != 48".into(), format!("found={:?}", r32(img, 40)));
            }
        }
        Kind::Viot => {
            w.summary.push(("node-count", r16(img, 36).unwrap()));
            if r16(img, 38) != Some(48) {
                issue(&mut w, "count-field", name.into(), "node-offset != 48".into(), format!("found={:?}", r16(img, 38)));
            }
        }
        Kind::Hest => w.summary.push(("source-count", r32(img, 36).unwrap())),
        Kind::Rqsc => w.summary.push(("controller-count", r32(img, 36).unwrap())),
        Kind::Slit => {
            let n = u64::from_le_bytes(img[36..44].try_into().unwrap());
            w.summary.push(("locality-count", n));
            let body = (img.len() - 44) as u64;
            if n.checked_mul(n) != Some(body) {
                issue(&mut w, "count-field", name.into(), "locality-count^2 != matrix bytes".into(), format!("count={} body={}", n, body));
            }
            return w;
        }
        _ => {}
    }
    let mut off = first;
    let end = img.len();
    while off < end {
        let rest = &img[off..];
        // (type, declared length, spec length if independent of the field, subs)
        let parsed: Result<(u32, usize, Option<usize>, Vec<u32>), String> = (|| -> Result<(u32, usize, Option<usize>, Vec<u32>), String> {
            let need = |n: usize| if rest.len() < n { Err(format!("truncated sub-header at {}", off)) } else { Ok(()) };
            Ok(match k {
                Kind::Xsdt => {
                    need(8)?;
                    (0, 8, Some(8), vec![])
                }
                Kind::Mcfg => {
                    need(16)?;
                    (0, 16, Some(16), vec![])
                }
                Kind::Madt => {
                    need(2)?;
                    let ty = rest[0] as u32;
                    let len = rest[1] as usize;
                    let spec = match ty {
                        0 => 8,
                        1 => 12,
                        0xb => 82,
                        0xc => 24,
                        0xd => 24,
                        0xe => 16,
                        0xf => 20,
                        0x18 => 36,
                        0x19 => 16,
                        0x1a => 36,
                        0x1b => 36,
                        _ => return Err(format!("unknown MADT structure type {:#x}", ty)),
                    };
                    (ty, len, Some(spec), vec![])
                }
                Kind::Srat => {
                    need(2)?;
                    let ty = rest[0] as u32;
                    let spec = match ty {
                        1 => 40,
                        5 => 32,
                        7 => 20,
                        _ => return Err(format!("unknown SRAT structure type {}", ty)),
                    };
                    (ty, rest[1] as usize, Some(spec), vec![])
                }
                Kind::Pptt => {
                    need(2)?;
                    let ty = rest[0] as u32;
                    let len = rest[1] as usize;
                    match ty {
                        0 => {
                            need(20)?;
                            let n = r32(rest, 16).unwrap() as usize;
                            (ty, len, Some(20 + 4 * n), vec![n as u32])
                        }
                        1 => (ty, len, Some(28), vec![]),
                        _ => return Err(format!("unknown PPTT node type {}", ty)),
                    }
                }
                Kind::Hmat => {
                    need(8)?;
                    let ty = r16(rest, 0).unwrap() as u32;
                    let len = r32(rest, 4).unwrap() as usize;
                    match ty {
                        0 => (ty, len, Some(40), vec![]),
                        1 => {
                            need(32)?;
                            let i = r32(rest, 12).unwrap() as usize;
                            let t = r32(rest, 16).unwrap() as usize;
                            (ty, len, Some(32 + 4 * i + 4 * t + 2 * i * t), vec![i as u32, t as u32])
                        }
                        2 => {
                            need(32)?;
                            let n = r16(rest, 30).unwrap() as usize;
                            (ty, len, Some(32 + 2 * n), vec![n as u32])
                        }
                        _ => return Err(format!("unknown HMAT structure type {}", ty)),
                    }
                }
                Kind::Rhct => {
                    need(6)?;
                    let ty = r16(rest, 0).unwrap() as u32;
                    let len = r16(rest, 2).unwrap() as usize;
                    match ty {
                        0 => {
                            need(8)?;
                            let sl = r16(rest, 6).unwrap() as usize;
                            let raw = 8 + sl;
                            (ty, len, Some(raw + raw % 2), vec![sl as u32])
                        }
                        1 => (ty, len, Some(10), vec![]),
                        2 => (ty, len, Some(8), vec![]),
                        0xffff => {
                            need(12)?;
                            let n = r16(rest, 6).unwrap() as usize;
                            (ty, len, Some(12 + 4 * n), vec![n as u32])
                        }
                        _ => return Err(format!("unknown RHCT node type {}", ty)),
                    }
                }
                Kind::Rimt => {
                    need(4)?;
                    let ty = rest[0] as u32;
                    let len = r16(rest, 2).unwrap() as usize;
                    match ty {
                        0 => {
                            need(32)?;
                            let wn = r16(rest, 28).unwrap() as usize;
                            if r16(rest, 30) != Some(32) {
                                return Err("IOMMU interrupt-wire array offset != 32".into());
                            }
                            (ty, len, Some(32 + 8 * wn), vec![wn as u32])
                        }
                        1 => {
                            need(16)?;
                            let m = r16(rest, 14).unwrap() as usize;
                            if r16(rest, 12) != Some(16) {
                                return Err("root complex id-mapping array offset != 16".into());
                            }
                            (ty, len, Some(16 + 20 * m), vec![m as u32])
                        }
                        2 => {
                            need(12)?;
                            let mo = r16(rest, 8).unwrap() as usize;
                            let m = r16(rest, 10).unwrap() as usize;
                            if mo < 13 {
                                return Err("platform id-mapping offset before the end of the name".into());
                            }
                            (ty, len, Some(mo + 20 * m), vec![(mo - 13) as u32, m as u32])
                        }
                        _ => return Err(format!("unknown RIMT device type {}", ty)),
                    }
                }
                Kind::Viot => {
                    need(4)?;
                    let ty = rest[0] as u32;
                    let spec = match ty {
                        1 | 2 => 24,
                        3 | 4 => 16,
                        _ => return Err(format!("unknown VIOT node type {}", ty)),
                    };
                    (ty, r16(rest, 2).unwrap() as usize, Some(spec), vec![])
                }
                Kind::Cedt => {
                    need(4)?;
                    let ty = rest[0] as u32;
                    let len = r16(rest, 2).unwrap() as usize;
                    match ty {
                        0 => (ty, len, Some(32), vec![]),
                        1 => {
                            need(36)?;
                            let niw = eniw_ways(rest[24] as u64).ok_or("CFMWS: reserved ENIW encoding")?;
                            (ty, len, Some(36 + 4 * niw), vec![niw as u32])
                        }
                        2 => {
                            need(8)?;
                            let nib = rest[7] as usize;
                            (ty, len, Some(8 + 8 * nib), vec![nib as u32])
                        }
                        // the published field list needs 17 bytes (see DESIGN 5)
                        3 => (ty, len, Some(17), vec![]),
                        _ => return Err(format!("unknown CEDT structure type {}", ty)),
                    }
                }
                Kind::Hest => {
                    need(4)?;
                    let ty = r16(rest, 0).unwrap() as u32;
                    let spec = match ty {
                        6 => 48,
                        7 => 44,
                        8 => 56,
                        9 => 64,
                        10 => 92,
                        _ => return Err(format!("unknown HEST source type {}", ty)),
                    };
                    // HEST sources carry no length field: the size is the specification's
                    (ty, spec, Some(spec), vec![])
                }
                Kind::Rqsc => {
                    need(28)?;
                    let ty = rest[0] as u32;
                    let len = r16(rest, 2).unwrap() as usize;
                    let n = r16(rest, 26).unwrap() as usize;
                    // nested resources: u8 type, u8 rsvd, u16 length (at least the 8-byte fixed part)
                    let mut o = 28;
                    for i in 0..n {
                        if rest.len() < o + 4 {
                            return Err(format!("controller resource {} truncated", i));
                        }
                        let rl = r16(rest, o + 2).unwrap() as usize;
                        if rl < 8 {
                            return Err(format!("controller resource {} shorter than its fixed part", i));
                        }
                        if rest.len() < o + rl {
                            return Err(format!("controller resource {} runs past the controller", i));
                        }
                        o += rl;
                    }
                    (ty, len, Some(o), vec![n as u32])
                }
                _ => return Err("not a variable-body table".into()),
            })
        })();
        match parsed {
            Err(e) => {
                issue(&mut w, "walk", name.into(), "framing".into(), format!("offset={} {}", off, e));
                return w;
            }
            Ok((ty, len, spec, subs)) => {
                let tn = type_name(k, ty);
                let step = match spec {
                    Some(s) if s != len => {
                        issue(
                            &mut w,
                            "entry-length-mismatch",
                            format!("{}/{}", name, tn),
                            format!("claimed={} written={}", len, s),
                            format!("offset={}", off),
                        );
                        s
                    }
                    _ => len,
                };
                if step == 0 || off + step > end {
                    issue(&mut w, "walk", format!("{}/{}", name, tn), "entry runs past the end of the image".into(), format!("offset={} len={} end={}", off, step, end));
                    return w;
                }
                // nested framing details
                if k == Kind::Rhct && ty == 0 {
                    let sl = subs[0] as usize;
                    if sl == 0 || img[off + 8 + sl - 1] != 0 {
                        issue(&mut w, "walk", format!("{}/{}", name, tn), "ISA string not NUL terminated within its length".into(), format!("offset={}", off));
                    } else if img[off + 8..off + 8 + sl - 1].contains(&0) {
                        issue(&mut w, "walk", format!("{}/{}", name, tn), "NUL inside the ISA string".into(), format!("offset={}", off));
                    } else if img[off + 8 + sl..off + step].iter().any(|b| *b != 0) {
                        issue(&mut w, "walk", format!("{}/{}", name, tn), "non-zero padding".into(), format!("offset={}", off));
                    }
                }
                if k == Kind::Rimt && ty == 2 {
                    let mo = r16(img, off + 8).unwrap() as usize;
                    if img[off + mo - 1] != 0 || img[off + 12..off + mo - 1].contains(&0) {
                        issue(&mut w, "walk", format!("{}/{}", name, tn), "platform name not a NUL-terminated string ending at the mapping offset".into(), format!("offset={}", off));
                    }
                }
                w.entries.push(WEntry { offset: off, ty, len: step, subs });
                off += step;
            }
        }
    }
    w
}

/// What the program says the body must contain: (type code, nested counts),
/// one per accepted add, from the specification's type codes.
pub fn expected_entry(op: &Op) -> Option<(u32, Vec<u32>)> {
    Some(match op {
        Op::XsdtEntry(..) | Op::Ecam(..) => (0, vec![]),
        Op::Lapic(..) => (0, vec![]),
        Op::IoApic(..) => (1, vec![]),
        Op::Gicc { .. } => (0xb, vec![]),
        Op::Gicd(..) => (0xc, vec![]),
        Op::GicMsi { .. } => (0xd, vec![]),
        Op::Gicr(..) => (0xe, vec![]),
        Op::Its(..) => (0xf, vec![]),
        Op::Rintc { .. } => (0x18, vec![]),
        Op::Imsic { .. } => (0x19, vec![]),
        Op::Aplic { .. } => (0x1a, vec![]),
        Op::Plic { .. } => (0x1b, vec![]),
        Op::SratMem { .. } => (1, vec![]),
        Op::SratGi { .. } => (5, vec![]),
        Op::SratRintc { .. } => (7, vec![]),
        Op::HmatProx(..) => (0, vec![]),
        Op::HmatSllbi { ni, nt, .. } => (1, vec![*ni, *nt]),
        Op::HmatCache { handles, .. } => (2, vec![handles.len() as u32]),
        Op::PpttProc { res, .. } => (0, vec![res.len() as u32]),
        Op::PpttCache { .. } => (1, vec![]),
        Op::RhctIsa(n) => (0, vec![*n as u32 + 1]),
        Op::RhctCmo(..) => (1, vec![]),
        Op::RhctMmu(..) => (2, vec![]),
        Op::RhctHart { cmos, .. } => (0xffff, vec![1 + cmos.len() as u32]),
        Op::RimtIommu { wires, .. } => (0, vec![wires.as_ref().map_or(0, |w| w.len()) as u32]),
        Op::RimtRc { maps, .. } => (1, vec![maps.as_ref().map_or(0, |m| m.len()) as u32]),
        Op::RimtPlat { name_len, maps, .. } => (2, vec![*name_len as u32, maps.as_ref().map_or(0, |m| m.len()) as u32]),
        Op::ViotPciRange { .. } => (1, vec![]),
        Op::ViotMmioEp { .. } => (2, vec![]),
        Op::ViotPciIommu(..) => (3, vec![]),
        Op::ViotMmioIommu(..) => (4, vec![]),
        Op::Chbs(..) => (0, vec![]),
        Op::Cfmws { ways, .. } => (1, vec![super::gen::WAYS_COUNT[*ways as usize]]),
        Op::Cxims { maps, .. } => (2, vec![maps.len() as u32]),
        Op::Rdpas { .. } => (3, vec![]),
        Op::AerRoot { .. } => (6, vec![]),
        Op::AerDev { .. } => (7, vec![]),
        Op::AerBridge { .. } => (8, vec![]),
        Op::Ghes { v2, .. } => (if *v2 { 10 } else { 9 }, vec![]),
        Op::RqscCtl { ty, res, .. } => (*ty as u32, vec![res.len() as u32]),
        _ => return None,
    })
}
