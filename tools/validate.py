#!/usr/bin/env python3
"""Validate MANIFEST.json and every evidence file against the schemas."""
import json, sys, glob
import jsonschema
ok = True
def check(path, schema):
    global ok
    try:
        jsonschema.validate(json.load(open(path)), json.load(open(schema)))
        print("ok  ", path)
    except Exception as e:
        ok = False
        print("FAIL", path, str(e)[:300])
check('/verif/MANIFEST.json', '/root/.vp/MANIFEST.schema.json')
for f in sorted(glob.glob('/verif/evidence/*.json')):
    check(f, '/root/.vp/EVIDENCE.schema.json')
sys.exit(0 if ok else 1)
