#!/bin/bash
# tools/seeded.sh <Cxx> <a|b|c> [extra Cyy...]
# 1. confirms a sub-agent's change independently in a scratch worktree (88 tests pass with it,
#    demo fails with it and passes without it); 2. stores it under /verif/seeded/<Cxx>-<x>/;
# 3. applies it to /repo, runs the property's quick check (and any extra properties), restores /repo.
cd "$(dirname "$0")/.." || exit 2
P="$1"; X="$2"; shift 2
SRC=${SEED_BASE:-/tmp/seed}/$P-out/$X
TAG=${SEED_TAG:-}
REL=""
grep -qi -- "--release" "$SRC/notes.json" 2>/dev/null && REL="--release"
[ -f "$SRC/patch.diff" ] || { echo "no $SRC/patch.diff"; exit 2; }
W=/tmp/seedconfirm/$P-$X$TAG
rm -rf "$W"; git -C /repo worktree prune; git -C /repo worktree add -q --detach "$W" HEAD || exit 2
cleanup() { git -C /repo worktree remove --force "$W" 2>/dev/null; git -C /repo checkout -q -- . ; }
trap cleanup EXIT
mkdir -p "$W/tests"; cp "$SRC/demo.rs" "$W/tests/demo.rs"
base_demo=$(cd "$W" && cargo test --offline $REL --test demo 2>&1 | grep -E "^test result" | head -1)
(cd "$W" && git apply "$SRC/patch.diff") || { echo "patch does not apply"; exit 2; }
with_lib=$(cd "$W" && cargo test --offline --lib 2>&1 | grep -E "^test result" | head -1)
with_demo=$(cd "$W" && cargo test --offline $REL --test demo 2>&1 | grep -E "^test result" | head -1)
echo "unpatched demo: $base_demo"; echo "patched lib:    $with_lib"; echo "patched demo:   $with_demo"
ok=1
echo "$base_demo" | grep -q "ok\." || ok=0
echo "$with_lib" | grep -q "ok. 88 passed; 0 failed" || ok=0
echo "$with_demo" | grep -q "FAILED" || ok=0
if [ $ok -ne 1 ]; then echo "NOT CONFIRMED $P-$X$TAG"; exit 3; fi
D=seeded/$P-$X$TAG; mkdir -p "$D"; cp "$SRC/patch.diff" "$SRC/demo.rs" "$D/"
results=""
PROP=${P:0:3}
for q in "$PROP" "$@"; do
  r=$(tools/mutant.sh "$D/patch.diff" "$q" | tail -1); echo "$r"; results="$results$r\n"
done
python3 - "$PROP" "$P-$X$TAG" "$SRC/notes.json" "$D/meta.json" "$base_demo" "$with_lib" "$with_demo" "$results" <<'PY'
import json,sys
P,X,notes,out,bd,wl,wd,res=sys.argv[1:9]
try: n=json.load(open(notes))
except Exception: n={}
json.dump({"breaks_property":P,"id":X,"summary":n.get("summary",""),"needs_to_manifest":n.get("needs",""),
 "author":"independent sub-agent given only the property text and a scratch worktree",
 "demo_profile":("release" if "--release" in open(notes).read() else "debug"),"confirmed_by_me":{"worktree":"scratch git worktree of /repo HEAD under /tmp/seedconfirm (removed afterwards)",
   "unpatched: cargo test --offline --test demo":bd,"patched: cargo test --offline --lib":wl,"patched: cargo test --offline --test demo":wd},
 "checks_run":[l for l in res.replace('\\n','\n').split('\n') if l]}, open(out,'w'), indent=1)
PY
