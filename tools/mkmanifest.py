#!/usr/bin/env python3
"""Regenerates /verif/MANIFEST.json from the table below (single source of truth for the registered checks)."""
import json, subprocess
props = [json.loads(l) for l in open('/verif/properties.jsonl')]
ids = [p['id'] for p in props]

C = {
 "C01": ("generated builder histories (proptest over a choice sequence) + directed/long histories; oracle: byte sum == 0 after every prefix",
         "Search, not proof: ~7k (quick) / 300k (thorough) generated programs over 21 table kinds plus directed histories that carry every count and length field across 255->256 and 65535->65536; the oracle is pure arithmetic on the emitted bytes, so a verdict cannot be wrong about the checksum itself.",
         "4 §C01", "trusts only the Vec<u8> sink and the documented preconditions (DESIGN §6); tables >= 4 GiB not explored"),
 "C02": ("generated builder histories; oracle: LE32 Length == emitted bytes and per-step delta(Length) == delta(bytes)",
         "Search over the same program space as C01 for all 22 kinds (FACS/RSDP length fields included); model-free oracle; one open known finding (CEDT RDPAS 16 vs 17).",
         "4 §C02", "Sdt writes into bytes 4..8 are moved away (C13 covers them)"),
 "C03": ("generated add sequences (plus every entry serialised on its own); oracle: independent specification-framing walker + count-field comparison",
         "Search over add sequences of the 13 variable-body tables; the walker is written from the specifications' framing rules and never consults the crate; one open known finding (CEDT RDPAS).",
         "4 §C03", "the walker's per-type sizes are my transcription of the specifications (tables/walk.rs)"),
 "C04": ("differential against an independently written specification-layout encoder (refenc.rs), byte for byte",
         "Search over builder programs of all 22 kinds with biased scalars (single bits, distinct-byte patterns) plus a one-field-at-a-time sweep (every scalar zero except one distinct-byte pattern) so that a misplaced, swapped or wrongly sized field is a byte diff; as strong as the reference transcription (DESIGN Appendix A).",
         "4 §C04", "reference layouts transcribed offline from ACPI 6.5/6.6, CXL 3.0, TCG, SPCR, RISC-V; pinned constants listed in DESIGN 3.3"),
 "C05": ("generated interleavings of node kinds with later handle uses; oracle: handle == walker offset of that node, references resolve",
         "Search over PPTT/RHCT/RIMT/VIOT histories; handles are read back through Debug or a probe object and compared with offsets found by the independent walker on every prefix.",
         "4 §C05", "VIOT kept below 64 KiB"),
 "C07": ("exhaustive enumeration of all 2^28 lengths x 2 forms through a guarded hook + real objects at boundary sizes; oracle: specification PkgLength decoder",
         "The encoder itself is decided exhaustively (every n < 2^28, both forms: value, lead-byte format, shortest); call sites are tied to it by sampling real objects of every length-prefixed kind around every width boundary.",
         "4 §C07", "hook verif_create_pkg_length forwards to the private encoder unchanged"),
 "C08": ("exhaustive u8/u16 (u32 in thorough) + boundary/random u64 through every integer type; oracle: rule-derived bytes and independent decoder",
         "Exhaustive for u8/u16 in every tier and for u32 in the thorough tier; u64/usize sampled at boundaries, single bits, byte fills and random magnitudes.", "4 §C08", "none beyond the sink"),
 "C09": ("exhaustive path shapes and per-position alphabets + generated paths and malformed strings; oracle: NameString rule and independent decoder",
         "All 510 (count, rooted) shapes and every segment position over its alphabet are enumerated; combinations and malformed strings are generated; the same paths are checked as the name of all 12 named objects.", "4 §C09", "multi-byte UTF-8 segments not generated"),
 "C11": ("exhaustive enumeration of option subsets/orders per structure; oracle: specification bit table + independence + distinguishability",
         "All option subsets of ~30 structures (orders for small subsets, repetitions, zero-valued variants of value-carrying options, FADT builder calls in a non-zero context), FADT's 25 flag values as singles/pairs/random (all 2^25 in thorough).", "4 §C11", "specification bit assignments as transcribed in props/c11.rs"),
 "C12": ("bounded-exhaustive and generated assignment sequences; oracle: reference map cell -> last value",
         "All short assignment sequences over all in-range pairs for small SLIT/SLLBI shapes, random sequences for larger ones; matrix region compared after every assignment.", "4 §C12", "none"),
 "C13": ("model-based: operation sequences against a Vec<u8> model, bounded-exhaustive for length <= 2, random up to 600 ops",
         "Every sequence of <= 2 operations over a 78-op alphabet x 4 initial lengths, plus generated long sequences; as_slice/len/is_empty/serialised bytes compared after every operation.", "4 §C13", "a zero-byte sink push is not an append"),
 "C16": ("exhaustive per-position alphabets (all 1.16e9 EISA ids in thorough) + generated ids/uuids/malformed strings; oracle: specification decompression / ToUUID inverse",
         "Round-trip through independent decoders; malformed classes the property lists must be refused.", "4 §C16", "only the malformed classes the property lists are demanded"),
 "C17": ("exhaustive 256x256 state/byte table + generated operation sequences; oracle: i128 reference sum",
         "The single-byte operations, every short slice over a heavy alphabet and every slice length up to 2100 are enumerated; other slice and sink operations by generated sequences; both build profiles (a panic of the accumulator is a violation).", "4 §C17", "none"),
 "C06": ("generated sort-correct term trees built as real nested crate objects; oracle: independent recursive-descent AML parser, parse tree == normal form of the built tree",
         "Search over term trees of every exported constructor (depth <= 6, filler-steered sizes at every PkgLength boundary and nesting level) plus every length-prefixed kind swept through 0..4200 / 2^20; the parser is written from the grammar and opcode table of the specification and is told only method arities.",
         "4 §C06", "the parser covers the grammar subset of DESIGN Appendix B; trees are sort-correct AML"),
 "C10": ("generated descriptors/templates; oracle: independent resource walker + per-field decoder against the caller's values",
         "All flag combinations of every descriptor kind enumerated; templates of 0..470 descriptors generated across the PkgLength and buffer-size width boundaries; the walker steps by the descriptors' own length fields.",
         "4 §C10", "descriptor layouts transcribed from ACPI 6.5 section 6.4 (aml/res.rs)"),
 "C14": ("differential across six sink implementations + double serialisation + history independence (serialised between operations or not) + raw-form comparison, over generated tables, entries and AML trees",
         "Every generated object is serialised into the vector sink twice and into a byte-only sink, an all-methods logging sink, the checksum sink, the generic-table sink and the package-builder sink; as_bytes() of every add_structure-able type is compared with its serialised form.",
         "4 §C14", "none beyond the generators of C01-C06"),
 "C15": ("differential between alternative construction paths, exhaustive over body sizes 0..4200 and 2^20 +- 16, generated child lists",
         "Scope::raw vs Scope::new, PackageBuilder vs Package, String vs &'static str, usize vs u64: byte equality, every body size through the PkgLength width boundaries enumerated.",
         "4 §C15", "neither path is trusted; absolute correctness is C06/C07's"),
 "C18": ("directed boundary sweep of 33 narrowing sites (through the tables and on stand-alone entry objects) at maximum / maximum+1 / far beyond, plus objects re-serialised after a refused call (must be byte-identical), in two build profiles (overflow checks off and on); oracle: must panic above the maximum, framing oracles of C03/C06 at the maximum",
         "Every encoded count/length field with a caller-controlled source is driven to its field maximum (control: accepted and correctly framed) and beyond (must panic) in the shipping arithmetic profile and, via a second binary, in the overflow-checking profile.",
         "4 §C18", "sizes needing >= 4 GiB of data are out of reach; the site catalogue is DESIGN §C18's"),
}
checks = []
for pid in ids:
    if pid not in C: continue
    tech, text, ref, note = C[pid]
    checks.append({
        "property_id": pid,
        "quick_cmd": f"./check {pid} quick",
        "thorough_cmd": f"./check {pid} thorough",
        "evidence_file": f"/verif/evidence/{pid}.json",
        "replay_cmd_template": "./check --replay {path}",
        "engine": "acpiv",
        "level_claimed": {"category": "exploration", "text": text, "design_ref": f"DESIGN.md §{ref}"},
        "level_note": note,
        "technique": "property-based testing: " + tech,
    })
hook = subprocess.run(['git','-C','/repo','log','--format=%H','--grep=^verif hook'],capture_output=True,text=True).stdout.split()
m = {
 "version": 1,
 "setup_cmd": "./setup.sh",
 "hooks": {
   "guard": "rust_vmm_acpi_tables_verif",
   "enable": "cfg flag passed by /verif/.cargo/config.toml (build.rustflags = --cfg rust_vmm_acpi_tables_verif); the harness depends on /repo by path, so every check rebuilds the crate from the working tree with the guard on",
   "baseline_off_cmd": "cd /repo && cargo test --workspace --no-fail-fast --offline",
   "source_commits": hook,
   "add_only": True,
 },
 "engines": [
   {"name": "acpiv", "path": "/verif/harness", "serves_properties": [c["property_id"] for c in checks],
    "kind_free_text": "Rust harness: choice-sequence decoders driven by proptest (seeded, shrinking), rayon enumerations of finite sub-domains, independent oracles (byte arithmetic, specification walkers/decoders, reference layout encoder, byte-vector models)"},
 ],
 "checks": checks,
 "notes": "All checks: ./check <Cxx> quick|thorough (cwd /verif). VERIF_SEED seeds every generator. Known findings: /verif/known_findings.json. Replays: ./check --replay <file>.",
 "not_applicable": [{"property_id": p, "reason": "check under construction in this session (AML tree parser / sink differential / refusal sweep); will be claimed once sound"} for p in ids if p not in C],
}
json.dump(m, open('/verif/MANIFEST.json','w'), indent=1)
print("checks:", len(checks), "not_applicable:", len(m["not_applicable"]))
