#!/usr/bin/env python3
"""tools/mkmut.py <name> <file> <old> <new> [<file> <old> <new> ...]
Creates /verif/mutants/<name>.diff: a textual edit of /repo (identified by code text), leaving /repo untouched."""
import sys, subprocess
name = sys.argv[1]
args = sys.argv[2:]
assert len(args) % 3 == 0
assert subprocess.run(['git','-C','/repo','status','--porcelain','--untracked-files=no'],capture_output=True,text=True).stdout.strip()=='' , 'repo dirty'
try:
    for i in range(0, len(args), 3):
        f, old, new = args[i:i+3]
        p = '/repo/' + f
        s = open(p).read()
        n = s.count(old)
        assert n == 1, f'{name}: {old!r} occurs {n} times in {f}'
        open(p, 'w').write(s.replace(old, new))
    d = subprocess.run(['git','-C','/repo','diff'],capture_output=True,text=True).stdout
    open(f'/verif/mutants/{name}.diff','w').write(d)
    print('wrote', name, len(d.splitlines()), 'lines')
finally:
    subprocess.run(['git','-C','/repo','checkout','-q','--','.'])
