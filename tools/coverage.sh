#!/bin/bash
# tools/coverage.sh — how much of /repo/src do the quick tiers execute?  (generator completeness audit)
# Builds an instrumented copy of the harness outside /verif, runs every quick check in its own process
# (2 threads each, reduced case counts: coverage counters are shared between threads and contended),
# prints the llvm-cov report for /repo/src and the lines never executed, and removes its scratch
# directory. Not part of any registered check.
set -u
S=/tmp/acpiv-cov; rm -rf $S; mkdir -p $S/root/evidence $S/prof
B=$(dirname "$(rustc +nightly --print target-libdir)")/bin
cp /verif/known_findings.json $S/root/
export CARGO_NET_OFFLINE=true
(cd /verif/harness && RUSTFLAGS="--cfg rust_vmm_acpi_tables_verif -C instrument-coverage" cargo +nightly build --offline --profile rel --target-dir $S/target 2>&1 | tail -1)
(cd /verif/harness && RUSTFLAGS="--cfg rust_vmm_acpi_tables_verif -C instrument-coverage" cargo +nightly build --offline --profile chk --target-dir $S/target 2>&1 | tail -1)
export ACPIV_ROOT=$S/root LLVM_PROFILE_FILE=$S/prof/q-%p-%m.profraw ACPIV_THREADS=2 ACPIV_SCALE=${COV_SCALE:-0.25} ACPIV_CHK_BIN=$S/target/chk/acpiv
cd $S || exit 2
for p in C01 C02 C03 C04 C05 C06 C07 C08 C09 C10 C11 C12 C13 C14 C15 C16 C17 C18; do
  ( $S/target/rel/acpiv check $p quick > $S/$p.log 2>&1; echo "$p rc=$?" ) &
done
wait
$B/llvm-profdata merge -sparse $S/prof/*.profraw -o $S/all.profdata
$B/llvm-cov report $S/target/rel/acpiv -object $S/target/chk/acpiv -instr-profile=$S/all.profdata --ignore-filename-regex='(harness|registry|rustc|library)' | cut -c1-200
echo "--- lines of /repo/src never executed:"
$B/llvm-cov show $S/target/rel/acpiv -object $S/target/chk/acpiv -instr-profile=$S/all.profdata --ignore-filename-regex='(harness|registry|rustc|library)' 2>/dev/null | grep -E "^/|^ +[0-9]+\| +0\|" | grep -B1 "| *0|" | grep -v "^--" | cut -c1-140
cd /; rm -rf $S; rm -f /repo/default_*.profraw /verif/default_*.profraw /verif/harness/default_*.profraw   # stray profiles of instrumented helper processes
