#!/bin/bash
# Runs every catalogue mutant (mutants/Mxx?.diff) against its property's quick check and
# every fix commit reverted (natural mutants) against the properties named in known_findings;
# writes mutants/RESULTS.txt. Needs a clean /repo; takes ~25 s per mutant.
cd "$(dirname "$0")/.." || exit 2
out=mutants/RESULTS.txt; : > $out
for f in mutants/M*.diff; do
  n=$(basename $f .diff); p="C${n:1:2}"
  extra=""
  case $n in M04g) extra="C14";; M06e) extra="C07";; esac
  MUT_BASELINE=1 tools/mutant.sh $f $p $extra 2>&1 | grep -E "^(test result|CAUGHT|MISSED|ERROR)" | cut -c1-220 >> $out
done
cat $out | grep -cE "^CAUGHT"; grep -E "^(MISSED|ERROR)" $out
