#!/bin/bash
# tools/mutant.sh <patch.diff | --revert <commit>> <Cxx> [<Cxx>...]
# Applies a change to /repo's working tree, runs the quick checks named, restores the tree.
# Prints one line per property: CAUGHT / MISSED (+ exit status).
cd "$(dirname "$0")/.." || exit 2
restore() { git -C /repo checkout -q -- . ; }
trap restore EXIT
if [ -n "$(git -C /repo status --porcelain --untracked-files=no)" ]; then echo "repo dirty, refusing"; exit 2; fi
if [ "$1" = "--revert" ]; then
  name="revert-$2"
  git -C /repo show "$2" | git -C /repo apply -R || { echo "cannot revert $2"; exit 2; }
  shift 2
else
  name="$(basename "$1" .diff)"
  git -C /repo apply "$(realpath "$1")" || { echo "cannot apply $1"; exit 2; }
  shift
fi
if [ "$MUT_BASELINE" = "1" ]; then
  (cd /repo && cargo test --offline 2>&1 | grep -E "^test result" | head -1)
fi
for p in "$@"; do
  out=$(./check "$p" "${MUT_TIER:-quick}" 2>&1); rc=$?
  if [ $rc -eq 1 ]; then echo "CAUGHT $name $p: $(echo "$out" | grep -A1 '^VIOLATION' | head -2 | tail -1)";
  elif [ $rc -eq 0 ]; then echo "MISSED $name $p"; else echo "ERROR($rc) $name $p: $(echo "$out" | tail -3)"; fi
done
