#!/bin/bash
# tools/preserving.sh <ID> <a|b|c|d>
# A change that a sub-agent wrote to KEEP a property true (false-alarm probe): confirm that the crate's 88 tests
# pass with it (scratch worktree), store it under /verif/preserving/<ID>-<x>/, apply it to /repo, run every quick
# check that looks at the touched code, restore /repo. Every check must stay silent (exit 0).
cd "$(dirname "$0")/.." || exit 2
P="$1"; X="$2"
SRC=${SEED_BASE:-/tmp/seed9}/$P-out/$X; TAG=${KEEP_TAG:-}
[ -f "$SRC/patch.diff" ] || { echo "no $SRC/patch.diff"; exit 2; }
W=/tmp/seedconfirm/$P-$X-keep
rm -rf "$W"; git -C /repo worktree prune; git -C /repo worktree add -q --detach "$W" HEAD || exit 2
cleanup() { git -C /repo worktree remove --force "$W" 2>/dev/null; git -C /repo checkout -q -- . ; }
trap cleanup EXIT
(cd "$W" && git apply "$SRC/patch.diff") || { echo "patch does not apply"; exit 2; }
lib=$(cd "$W" && cargo test --offline --lib 2>&1 | grep -E "^test result" | head -1)
echo "patched lib: $lib"
echo "$lib" | grep -q "ok. 88 passed; 0 failed" || { echo "NOT CONFIRMED (suite does not pass)"; exit 3; }
D=preserving/$P-$X$TAG; mkdir -p "$D"; cp "$SRC/patch.diff" "$SRC/notes.json" "$D/" 2>/dev/null
if grep -q "^+++ b/src/aml.rs" "$SRC/patch.diff"; then SET="C06 C07 C08 C09 C10 C14 C15 C16 C18"; else SET="C01 C02 C03 C04 C05 C11 C12 C13 C14 C17 C18"; fi
echo "$SET" | grep -qw "${P:0:3}" || SET="${P:0:3} $SET"
[ -n "$(git -C /repo status --porcelain --untracked-files=no)" ] && { echo "repo dirty, refusing"; exit 2; }
git -C /repo apply "$(realpath "$SRC/patch.diff")" || exit 2
res=""
for q in $SET; do
  out=$(./check "$q" quick 2>&1); rc=$?
  if [ $rc -eq 0 ]; then r="SILENT $q"; elif [ $rc -eq 1 ]; then r="ALARM $q: $(echo "$out" | grep -A1 '^VIOLATION' | head -2 | tail -1 | cut -c1-300)"; else r="ERROR($rc) $q: $(echo "$out" | grep -a 'HARNESS' | head -1 | cut -c1-300)"; fi
  echo "$r"; res="$res$r
"
done
git -C /repo checkout -q -- .
python3 - "$P-$X$TAG" "$SRC/notes.json" "$D/meta.json" "$lib" "$res" <<'PY'
import json,sys
i,notes,out,lib,res=sys.argv[1:6]
try: n=json.load(open(notes))
except Exception: n={}
json.dump({"id":i,"keeps_property":i[:3],"summary":n.get("summary",""),"why_property_still_holds":n.get("why_property_still_holds",""),
 "what_differs_observably":n.get("what_differs_observably",""),"author":"independent sub-agent given only the property text and a scratch worktree",
 "patched: cargo test --offline --lib":lib,"quick_checks_run":[l for l in res.split('\n') if l]}, open(out,'w'), indent=1)
PY
