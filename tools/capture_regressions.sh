#!/bin/bash
# tools/capture_regressions.sh <commit> <slug> <Cxx> [<Cxx>...]
# Reverts a fix commit in /repo's working tree, runs the checks, and stores the reproducers
# they produce under /verif/replays/<Cxx>/<slug>-N.json (regression tier). Restores /repo.
cd "$(dirname "$0")/.." || exit 2
commit="$1"; slug="$2"; shift 2
restore() { git -C /repo checkout -q -- . ; }
trap restore EXIT
git -C /repo show "$commit" | git -C /repo apply -R || exit 2
for p in "$@"; do
  rm -f replays/found/$p-*.json
  ./check "$p" quick >/dev/null 2>&1
  n=0
  mkdir -p replays/$p
  for f in replays/found/$p-*.json; do
    [ -f "$f" ] || continue
    n=$((n+1)); [ $n -gt 3 ] && break
    cp "$f" "replays/$p/$slug-$n.json"
  done
  echo "$p $slug: $n reproducer(s)"
done
